import WgslVerif.Out
import WgslVerif.Ext.WgslLayout
/-
Ext.Encase – executable transcription of the layout metadata encase 0.10 (`ShaderType`) assigns
to the Rust types the generator emits under the glam representation:
scalars f32/i32/u32 (`impl_basic_traits`), glam vectors / square matrices (`impl_vector!`,
`impl_matrix!` with the `glam` feature), fixed arrays (`[T; N]`: stride = size rounded up to the
alignment), structs (derive: each field at the previous end rounded up to the field's alignment,
size rounded up to the struct alignment) and a trailing runtime-sized `Vec<T>`
(`max(len, 1)` elements).  encase 0.10 has NO impls for f64 / `DVec*` / `DMat*` / bool.
Modelled, not verified; validated against the bytes the real `encase::StorageBuffer::write`
produces (harness `batch encase`).
-/
namespace WgslVerif
namespace Encase
open WgslLayout (roundUp)

/-- (alignment, size) of a sized field type; `structMeta` answers for nested structs -/
def alignSizeOf (structMeta : String → Option (Nat × Nat)) : RustTy → Option (Nat × Nat)
  | .prim "f32" => some (4, 4)
  | .prim "i32" => some (4, 4)
  | .prim "u32" => some (4, 4)
  | .glam "Vec2" => some (8, 8) | .glam "UVec2" => some (8, 8) | .glam "IVec2" => some (8, 8)
  | .glam "Vec3" => some (16, 12) | .glam "UVec3" => some (16, 12) | .glam "IVec3" => some (16, 12)
  | .glam "Vec4" => some (16, 16) | .glam "UVec4" => some (16, 16) | .glam "IVec4" => some (16, 16)
  | .glam "Mat2" => some (8, 16)
  | .glam "Mat3" => some (16, 48)
  | .glam "Mat4" => some (16, 64)
  | .array t n => (alignSizeOf structMeta t).map fun (p : Nat × Nat) => (p.1, n * roundUp p.1 p.2)
  | .named s => structMeta s
  -- a runtime-sized array (`#[size(runtime)] Vec<T>`) is written with `max(len, 1)` elements: this is its metadata with
  -- one element; `runtimeLen` gives the byte length of the enclosing struct for any length
  | .vec t => (alignSizeOf structMeta t).map fun (p : Nat × Nat) => (p.1, roundUp p.1 p.2)
  | _ => none

/-- offsets of the fields of a derived struct and its size, from the fields' (align, size) -/
def structLayout (fields : List (Nat × Nat)) : List Nat × Nat × Nat :=
  let step := fun (acc : List Nat × Nat × Nat) (f : Nat × Nat) =>
    let off := roundUp f.1 acc.2.1
    (acc.1 ++ [off], off + f.2, max acc.2.2 f.1)
  let r := fields.foldl step ([], 0, 1)
  (r.1, roundUp r.2.2 r.2.1, r.2.2)

/-- bytes `StorageBuffer::write` produces for a struct of alignment `align` whose last field, at `lastOff`, is a runtime-sized
array of element stride `stride` holding `k` elements -/
def runtimeLen (align lastOff stride k : Nat) : Nat := roundUp align (lastOff + max k 1 * stride)

/-- (alignment, size) encase assigns to a derived struct, by name, from the struct items in scope
(fuel bounds the nesting depth; the relational form without fuel is `Encase.Meta` in Props/C10Struct) -/
def structMeta (structs : List RStruct) : Nat → String → Option (Nat × Nat)
  | 0, _ => none
  | fuel + 1, name =>
    match structs.find? fun s => s.name == name with
    | none => none
    | some s =>
      let metas := s.fields.map fun f => alignSizeOf (structMeta structs fuel) f.ty
      if metas.all (·.isSome) then
        let l := structLayout (metas.map fun x => x.getD (1, 0))
        some (l.2.2, l.2.1)
      else none

end Encase
end WgslVerif
