import WgslVerif.IR
/-
Ext.WgslLayout – executable transcription of the WGSL memory-layout rules (WGSL spec §13.4.1
"Alignment and Size"): AlignOf / SizeOf of scalars, vectors, matrices, arrays (element stride)
and the constraints a struct layout has to satisfy (with `@align` / `@size` a member may sit
later / be larger than the natural layout, never earlier / smaller).
Modelled, not verified; `layoutOK` is evaluated on every module the harness dumps and compares
these rules with the numbers naga's front end and `Layouter` recorded (member offsets, spans,
strides, sizes, alignments) – that validates the transcription AND the hypothesis the C05/C13/C10
theorems rely on ("naga's numbers are the WGSL rules").
-/
namespace WgslVerif
namespace WgslLayout

def roundUp (k n : Nat) : Nat := if k = 0 then n else (n + k - 1) / k * k

def vecAlign (n : VecSize) (w : Nat) : Nat :=
  match n with
  | .bi => 2 * w
  | .tri => 4 * w
  | .quad => 4 * w

def vecSize (n : VecSize) (w : Nat) : Nat := n.toNat * w

/-- (AlignOf, SizeOf) by the WGSL rules; for structs the recorded span and the maximum of the
member alignments (an explicit `@align` can only raise it); `none` = no host-shareable layout -/
def alignSize (m : Module) : Nat → Ty → Option (Nat × Nat)
  | 0, _ => none
  | fuel + 1, ty =>
    match ty.inner with
    | .scalar s => some (s.width, s.width)
    | .atomic s => some (s.width, s.width)
    | .vector n s => some (vecAlign n s.width, vecSize n s.width)
    | .matrix cols rows s =>
      some (vecAlign rows s.width, cols.toNat * roundUp (vecAlign rows s.width) (vecSize rows s.width))
    | .array base size _ =>
      match m.types[base]? with
      | some bt =>
        match alignSize m fuel bt with
        | some (a, sz) =>
          let stride := roundUp a sz
          match size with
          | .const n => some (a, n * stride)
          | .dynamic => some (a, stride)
          | .pending => none
        | none => none
      | none => none
    | .struct members span =>
      let aligns := members.map fun mem =>
        match m.types[mem.ty]? with
        | some mt => (alignSize m fuel mt).map (fun (p : Nat × Nat) => p.1)
        | none => none
      if aligns.all (·.isSome) then some (aligns.foldl (fun a x => max a (x.getD 1)) 1, span) else none
    | _ => none

def fuelOf (m : Module) : Nat := m.types.length + 1

/-- SizeOf a struct of alignment `align` whose last member, at offset `lastOff`, is a runtime-sized array of element stride
`stride` with `k` elements (WGSL §13.4.1: roundUp(AlignOf(S), OffsetOfMember(S, L) + N_runtime × stride); a binding holds at
least one element) -/
def runtimeStructSize (align lastOff stride k : Nat) : Nat := roundUp align (lastOff + max k 1 * stride)

/-- natural stride of an array's element type -/
def strideOk (m : Module) (ty : Ty) : Bool :=
  match ty.inner with
  | .array base _ stride =>
    match (m.types[base]?).bind (alignSize m (fuelOf m)) with
    | some (a, sz) => stride == roundUp a sz
    | none => true
  | _ => true

/-- a struct's recorded member offsets obey the rules: each a multiple of the member's alignment,
members in increasing order without overlap, the span covers the last member and is a multiple of
the struct's alignment -/
def structOk (m : Module) (ty : Ty) : Bool :=
  match ty.inner with
  | .struct members span =>
    let infos := members.map fun mem => (mem.offset, (m.types[mem.ty]?).bind (alignSize m (fuelOf m)))
    if infos.all (·.2.isSome) then
      let rec go (prevEnd : Nat) : List (Nat × Option (Nat × Nat)) → Bool
        | [] => prevEnd ≤ span
        | (off, some (a, sz)) :: rest => off % a == 0 && prevEnd ≤ off && go (off + sz) rest
        | (_, none) :: _ => false
      go 0 infos && span % ty.layAlign == 0 && span == ty.laySize
    else true
  | _ => true

/-- naga's `Layouter` numbers equal the rules for every type that has a host layout -/
def layouterOk (m : Module) (ty : Ty) : Bool :=
  match alignSize m (fuelOf m) ty with
  | some (a, sz) =>
    match ty.inner with
    | .struct .. => a ≤ ty.layAlign && sz == ty.laySize && ty.size == sz
    | .array _ .dynamic _ => a == ty.layAlign
    | _ => a == ty.layAlign && sz == ty.laySize && ty.size == sz
  | none => true

/-- hypothesis `layoutOK` of DESIGN.md, evaluated per dumped module -/
def layoutOK (m : Module) : Bool :=
  m.types.all fun ty => strideOk m ty && structOk m ty && layouterOk m ty

/-- which type breaks `layoutOK`, for the report -/
def firstBad (m : Module) : Option (Nat × String) :=
  ((List.range m.types.length).zip m.types).findSome? fun (it : Nat × Ty) =>
    if !strideOk m it.2 then some (it.1, "stride")
    else if !structOk m it.2 then some (it.1, "struct-offsets")
    else if !layouterOk m it.2 then some (it.1, "layouter")
    else none

end WgslLayout
end WgslVerif
