/-
S-expressions: the wire format between the Rust harness and the Lean driver.

  sexp  ::= atom | "string" | ( sexp* )
  atom  ::= [^ \t\n()"]+
  string: printable ASCII except `"` and `\` verbatim, everything else `\u{HEX}`.

Driver-side code only: nothing in here is referred to by a theorem.
-/
namespace WgslVerif

inductive Sexp where
  | atom (s : String)
  | str (s : String)
  | list (xs : List Sexp)
  deriving Repr, Inhabited, BEq

namespace Sexp

private def hexVal (c : Char) : Option Nat :=
  if '0' ≤ c ∧ c ≤ '9' then some (c.toNat - '0'.toNat)
  else if 'a' ≤ c ∧ c ≤ 'f' then some (c.toNat - 'a'.toNat + 10)
  else if 'A' ≤ c ∧ c ≤ 'F' then some (c.toNat - 'A'.toNat + 10)
  else none

/-- Read a quoted string body (after the opening quote). Returns the string and the rest. -/
private partial def readStr (cs : List Char) (acc : List Char) : Option (String × List Char) :=
  match cs with
  | [] => none
  | '"' :: rest => some (String.ofList acc.reverse, rest)
  | '\\' :: 'u' :: '{' :: rest =>
    let rec hex (cs : List Char) (n : Nat) : Option (Nat × List Char) :=
      match cs with
      | '}' :: r => some (n, r)
      | c :: r => match hexVal c with
        | some v => hex r (n * 16 + v)
        | none => none
      | [] => none
    match hex rest 0 with
    | some (n, r) => readStr r (Char.ofNat n :: acc)
    | none => none
  | c :: rest => readStr rest (c :: acc)

private def isAtomChar (c : Char) : Bool :=
  !(c == ' ' || c == '\t' || c == '\n' || c == '\r' || c == '(' || c == ')' || c == '"')

/-- Parser with an explicit stack of open lists. -/
private partial def parseLoop (cs : List Char) (stack : List (List Sexp)) (cur : List Sexp) :
    Option (List Sexp) :=
  match cs with
  | [] => if stack.isEmpty then some cur.reverse else none
  | '(' :: rest => parseLoop rest (cur :: stack) []
  | ')' :: rest =>
    match stack with
    | [] => none
    | top :: stack' => parseLoop rest stack' (Sexp.list cur.reverse :: top)
  | '"' :: rest =>
    match readStr rest [] with
    | some (s, rest') => parseLoop rest' stack (Sexp.str s :: cur)
    | none => none
  | c :: rest =>
    if isAtomChar c then
      let tok := (c :: rest).takeWhile isAtomChar
      let rest' := (c :: rest).dropWhile isAtomChar
      parseLoop rest' stack (Sexp.atom (String.ofList tok) :: cur)
    else parseLoop rest stack cur

/-- Parse a sequence of S-expressions from a string. -/
def parseMany (s : String) : Option (List Sexp) := parseLoop s.toList [] []

def parseOne (s : String) : Option Sexp :=
  match parseMany s with
  | some [x] => some x
  | _ => none

private def hexDigit (n : Nat) : Char :=
  if n < 10 then Char.ofNat (n + '0'.toNat) else Char.ofNat (n - 10 + 'a'.toNat)

private partial def toHex (n : Nat) : String :=
  if n < 16 then String.singleton (hexDigit n) else toHex (n / 16) ++ String.singleton (hexDigit (n % 16))

def quote (s : String) : String :=
  "\"" ++ String.join (s.toList.map fun c =>
    if c.toNat ≥ 0x20 ∧ c.toNat ≤ 0x7e ∧ c ≠ '"' ∧ c ≠ '\\' then String.singleton c
    else "\\u{" ++ toHex c.toNat ++ "}") ++ "\""

partial def render : Sexp → String
  | atom s => s
  | str s => quote s
  | list xs => "(" ++ " ".intercalate (xs.map render) ++ ")"

/-! ### Accessors used by the decoders -/

/-- `(key a b c)` → `[a,b,c]` -/
def tagged? (tag : String) : Sexp → Option (List Sexp)
  | list (atom t :: rest) => if t == tag then some rest else none
  | _ => none

/-- find the first `(key …)` child in a list of S-expressions -/
def field? (key : String) : List Sexp → Option (List Sexp)
  | [] => none
  | x :: xs => match tagged? key x with
    | some r => some r
    | none => field? key xs

def asNat? : Sexp → Option Nat
  | atom s => s.toNat?
  | _ => none

def asInt? : Sexp → Option Int
  | atom s => s.toInt?
  | _ => none

def asStr? : Sexp → Option String
  | str s => some s
  | _ => none

def asAtom? : Sexp → Option String
  | atom s => some s
  | _ => none

def asBool? : Sexp → Option Bool
  | atom "true" => some true
  | atom "false" => some false
  | _ => none

def asList? : Sexp → Option (List Sexp)
  | list xs => some xs
  | _ => none

/-- `none` atom or `(some x)` -/
def asOpt? (f : Sexp → Option α) : Sexp → Option (Option α)
  | atom "none" => some none
  | list [atom "some", x] => (f x).map some
  | _ => none

end Sexp
end WgslVerif
