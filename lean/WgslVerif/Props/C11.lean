import WgslVerif.Lemmas.C11
/-
C11 – Group numbering contract: dense groups, unique slots, or a typed error.

Statements are about `getBindGroupDataOf bs`, `bs` = the bound variables in declaration
order (`getBindGroupData m = getBindGroupDataOf (boundGlobals m)` by definition).
The specification side (`firstClash`, `Dense`, `lookup`, `filter`) does not mention the
sorted-map implementation.
-/
namespace WgslVerif
open C11

/-- the (group, binding) pair of a bound variable -/
def GroupBinding.slot (b : GroupBinding) : Nat × Nat := (b.group, b.binding)

/-- The first variable, in declaration order after the processed prefix `p`, whose
(@group, @binding) pair repeats an earlier one. -/
def firstClashFrom (p : List GroupBinding) : List GroupBinding → Option GroupBinding
  | [] => none
  | b :: bs => if Clashes p b then some b else firstClashFrom (p ++ [b]) bs

def firstClash (bs : List GroupBinding) : Option GroupBinding := firstClashFrom [] bs

/-- the used group indices are exactly `0..n-1` for some `n` -/
def Dense (bs : List GroupBinding) : Prop := ∃ n, ∀ g, (∃ b ∈ bs, b.group = g) ↔ g < n

/-! ### `firstClash` is what its name says -/

theorem clashes_iff (p : List GroupBinding) (b : GroupBinding) :
    Clashes p b = true ↔ b.slot ∈ p.map GroupBinding.slot := by
  unfold Clashes GroupBinding.slot
  simp only [List.any_eq_true, List.mem_map, decide_eq_true_eq, Prod.mk.injEq]

theorem firstClashFrom_none (p bs : List GroupBinding) (hp : (p.map GroupBinding.slot).Nodup) :
    firstClashFrom p bs = none ↔ ((p ++ bs).map GroupBinding.slot).Nodup := by
  induction bs generalizing p with
  | nil => simp [firstClashFrom, hp]
  | cons b bs ih =>
    unfold firstClashFrom
    by_cases hc : Clashes p b = true
    · have hm := (clashes_iff p b).mp hc
      simp only [hc, if_true, reduceCtorEq, false_iff]
      intro hn
      rw [List.map_append, List.map_cons] at hn
      have := (List.nodup_append.mp hn).2.2 _ hm b.slot (by simp)
      exact this rfl
    · have hm : b.slot ∉ p.map GroupBinding.slot := fun h => hc ((clashes_iff p b).mpr h)
      simp only [hc, Bool.false_eq_true, if_false]
      have hp' : ((p ++ [b]).map GroupBinding.slot).Nodup := by
        rw [List.map_append]
        apply List.nodup_append.mpr
        refine ⟨hp, by simp, ?_⟩
        intro a ha c hc' hac
        simp at hc'; subst hc'; subst hac; exact hm ha
      rw [ih (p ++ [b]) hp', List.append_assoc]; rfl

/-- No clash at all iff all (@group, @binding) pairs are distinct. -/
theorem firstClash_none (bs : List GroupBinding) :
    firstClash bs = none ↔ (bs.map GroupBinding.slot).Nodup := by
  have := firstClashFrom_none [] bs (by simp)
  simpa [firstClash] using this

theorem firstClashFrom_some (p bs : List GroupBinding) (b : GroupBinding)
    (h : firstClashFrom p bs = some b) :
    ∃ pre post, bs = pre ++ b :: post ∧ Clashes (p ++ pre) b = true ∧
      firstClashFrom p pre = none := by
  induction bs generalizing p with
  | nil => simp [firstClashFrom] at h
  | cons x xs ih =>
    unfold firstClashFrom at h
    by_cases hc : Clashes p x = true
    · simp only [hc, if_true, Option.some.injEq] at h
      subst h
      exact ⟨[], xs, rfl, by simpa using hc, rfl⟩
    · simp only [hc, Bool.false_eq_true, if_false] at h
      obtain ⟨pre, post, e, hcl, hn⟩ := ih (p ++ [x]) h
      refine ⟨x :: pre, post, by rw [e]; rfl, by simpa [List.append_assoc] using hcl, ?_⟩
      unfold firstClashFrom
      simp [hc, hn]

/-- `firstClash bs = some b`: `b` repeats the pair of an earlier variable and no
variable before `b` does. -/
theorem firstClash_some (bs : List GroupBinding) (b : GroupBinding) (h : firstClash bs = some b) :
    ∃ pre post, bs = pre ++ b :: post ∧ b.slot ∈ pre.map GroupBinding.slot ∧
      (pre.map GroupBinding.slot).Nodup := by
  obtain ⟨pre, post, e, hc, hn⟩ := firstClashFrom_some [] bs b h
  refine ⟨pre, post, e, ?_, ?_⟩
  · simpa using (clashes_iff _ _).mp hc
  · exact (firstClash_none pre).mp hn

/-! ### the traversal -/

theorem collect_spec : ∀ (bs p : List GroupBinding) (gs : Groups), RepFrom 0 gs p →
    (∀ k, (∃ l, (k, l) ∈ gs) ↔ ∃ b ∈ p, b.group = k) →
    match firstClashFrom p bs with
    | some b => collect bs gs = .error (.duplicateBinding b.binding)
    | none => ∃ gs', collect bs gs = .ok gs' ∧ RepFrom 0 gs' (p ++ bs) ∧
        (∀ k, (∃ l, (k, l) ∈ gs') ↔ ∃ b ∈ p ++ bs, b.group = k) := by
  intro bs
  induction bs with
  | nil =>
    intro p gs hr hk
    simp only [firstClashFrom, collect, List.append_nil]
    exact ⟨gs, rfl, hr, hk⟩
  | cons b bs ih =>
    intro p gs hr hk
    obtain ⟨he, ho⟩ := upsert_spec b gs 0 p hr (Nat.zero_le _)
    unfold firstClashFrom
    by_cases hc : Clashes p b = true
    · simp only [hc, if_true]
      unfold collect
      rw [he hc]
    · have hc' : Clashes p b = false := by simpa using hc
      simp only [hc, Bool.false_eq_true, if_false]
      obtain ⟨gs', h1, h2, h3⟩ := ho hc'
      have hk' : ∀ k, (∃ l, (k, l) ∈ gs') ↔ ∃ x ∈ p ++ [b], x.group = k := by
        intro k
        rw [h3 k, hk k]
        simp only [List.mem_append, List.mem_singleton]
        constructor
        · rintro (rfl | ⟨x, hx, e⟩)
          · exact ⟨b, Or.inr rfl, rfl⟩
          · exact ⟨x, Or.inl hx, e⟩
        · rintro ⟨x, (hx | rfl), e⟩
          · exact Or.inr ⟨x, hx, e⟩
          · exact Or.inl e.symm
      have := ih (p ++ [b]) gs' h2 hk'
      unfold collect
      rw [h1]
      simp only [List.append_assoc, List.singleton_append] at this
      exact this

theorem repFrom_nil : RepFrom 0 ([] : Groups) [] :=
  ⟨trivial, fun _ _ h => (by cases h), fun _ _ => rfl⟩

/-- A strictly ascending key list whose members are exactly `[lo, hi)` is `range' lo (hi-lo)`. -/
theorem sorted_keys_eq_range' : ∀ (gs : Groups) (lo hi : Nat), Sorted gs →
    (∀ g, (∃ l, (g, l) ∈ gs) ↔ lo ≤ g ∧ g < hi) → gs.map (·.1) = List.range' lo (hi - lo) := by
  intro gs
  induction gs with
  | nil =>
    intro lo hi _ hm
    have : hi ≤ lo := by
      apply Nat.le_of_not_lt
      intro h
      obtain ⟨l, hl⟩ := (hm lo).mpr ⟨Nat.le_refl _, h⟩
      cases hl
    simp [Nat.sub_eq_zero_of_le this]
  | cons x rest ih =>
    obtain ⟨k, bs⟩ := x
    intro lo hi hs hm
    have hk := (hm k).mp ⟨bs, by simp⟩
    have hlo : k = lo := by
      obtain ⟨l, hl⟩ := (hm lo).mpr ⟨Nat.le_refl _, by omega⟩
      rcases List.mem_cons.mp hl with e | hl
      · cases e; rfl
      · have := hs.head_lt lo l hl; omega
    subst hlo
    have hrest : ∀ g, (∃ l, (g, l) ∈ rest) ↔ k + 1 ≤ g ∧ g < hi := by
      intro g
      constructor
      · rintro ⟨l, hl⟩
        have h1 := hs.head_lt g l hl
        have h2 := (hm g).mp ⟨l, List.mem_cons_of_mem _ hl⟩
        omega
      · rintro ⟨h1, h2⟩
        obtain ⟨l, hl⟩ := (hm g).mpr ⟨by omega, h2⟩
        rcases List.mem_cons.mp hl with e | hl
        · cases e; omega
        · exact ⟨l, hl⟩
    have := ih (k + 1) hi hs.tail hrest
    have e : hi - k = (hi - (k + 1)) + 1 := by omega
    rw [List.map_cons, this, e, List.range'_succ]

theorem keys_mem_iff (gs : Groups) (g : Nat) : g ∈ gs.map (·.1) ↔ ∃ l, (g, l) ∈ gs := by
  simp only [List.mem_map]
  constructor
  · rintro ⟨⟨k, l⟩, h, rfl⟩; exact ⟨l, h⟩
  · rintro ⟨l, h⟩; exact ⟨(g, l), h, rfl⟩

/-- The final `0..len` comparison succeeds iff the group set is dense. -/
theorem keys_range_iff_dense (gs : Groups) (bs : List GroupBinding) (hs : Sorted gs)
    (hk : ∀ k, (∃ l, (k, l) ∈ gs) ↔ ∃ b ∈ bs, b.group = k) :
    gs.map (·.1) = List.range gs.length ↔ Dense bs := by
  constructor
  · intro h
    refine ⟨gs.length, fun g => ?_⟩
    rw [← hk g, ← keys_mem_iff, h, List.mem_range]
  · rintro ⟨n, hn⟩
    have hm : ∀ g, (∃ l, (g, l) ∈ gs) ↔ 0 ≤ g ∧ g < n := by
      intro g; rw [hk g, hn g]; simp
    have h := sorted_keys_eq_range' gs 0 n hs hm
    have hl : gs.length = n := by
      have := congrArg List.length h
      simpa using this
    rw [h, hl, Nat.sub_zero, List.range_eq_range']

/-- Full characterisation of the traversal's outcome. -/
theorem getBindGroupDataOf_spec (bs : List GroupBinding) :
    match firstClash bs with
    | some b => getBindGroupDataOf bs = .error (.duplicateBinding b.binding)
    | none =>
      (Dense bs ∧ ∃ gs, getBindGroupDataOf bs = .ok gs ∧ RepFrom 0 gs bs ∧
          gs.map (·.1) = List.range gs.length ∧
          (∀ k, (∃ l, (k, l) ∈ gs) ↔ ∃ b ∈ bs, b.group = k)) ∨
      (¬ Dense bs ∧ getBindGroupDataOf bs = .error .nonConsecutive) := by
  have h := collect_spec bs [] [] repFrom_nil (by intro k; simp)
  unfold firstClash
  cases hf : firstClashFrom [] bs with
  | some b =>
    rw [hf] at h
    simp only at h ⊢
    unfold getBindGroupDataOf
    rw [h]
  | none =>
    rw [hf] at h
    obtain ⟨gs, h1, h2, h3⟩ := h
    simp only [List.nil_append] at h2 h3
    have hd := keys_range_iff_dense gs bs h2.sorted h3
    simp only
    by_cases hk : gs.map (·.1) = List.range gs.length
    · left
      refine ⟨hd.mp hk, gs, ?_, h2, hk, h3⟩
      unfold getBindGroupDataOf; rw [h1]; simp [hk]
    · right
      refine ⟨fun d => hk (hd.mpr d), ?_⟩
      unfold getBindGroupDataOf; rw [h1]; simp [hk]

/-! ### The property theorems -/

/-- C11 (duplicate): the dedicated duplicate-binding error is returned exactly when some
(@group,@binding) pair repeats, and it reports the index of the first repeated pair in
declaration order. -/
theorem C11_dup (bs : List GroupBinding) (n : Nat) :
    getBindGroupDataOf bs = .error (.duplicateBinding n) ↔
      ∃ b, firstClash bs = some b ∧ b.binding = n := by
  have h := getBindGroupDataOf_spec bs
  cases hf : firstClash bs with
  | some b =>
    rw [hf] at h; simp only at h
    rw [h]
    constructor
    · intro e; injection e with e; injection e with e; exact ⟨b, rfl, e⟩
    · rintro ⟨b', e, rfl⟩; injection e with e; rw [e]
  | none =>
    rw [hf] at h; simp only at h
    constructor
    · intro e
      rcases h with ⟨_, gs, h1, _⟩ | ⟨_, h1⟩ <;> rw [h1] at e <;> cases e
    · rintro ⟨b, e, _⟩; cases e

/-- C11 (gaps): with all pairs distinct, the non-consecutive error is returned exactly when
the used group indices are not `0..n-1`. -/
theorem C11_gap (bs : List GroupBinding) :
    getBindGroupDataOf bs = .error .nonConsecutive ↔ firstClash bs = none ∧ ¬ Dense bs := by
  have h := getBindGroupDataOf_spec bs
  cases hf : firstClash bs with
  | some b =>
    rw [hf] at h; simp only at h
    rw [h]; simp
  | none =>
    rw [hf] at h; simp only at h
    constructor
    · intro e
      rcases h with ⟨_, gs, h1, _⟩ | ⟨hd, _⟩
      · rw [h1] at e; cases e
      · exact ⟨rfl, hd⟩
    · rintro ⟨_, hd⟩
      rcases h with ⟨d, _⟩ | ⟨_, h1⟩
      · exact absurd d hd
      · exact h1

/-- C11 (success): generation of the group data succeeds iff all pairs are distinct and the
groups are dense from 0. -/
theorem C11_ok (bs : List GroupBinding) :
    (∃ gs, getBindGroupDataOf bs = .ok gs) ↔
      (bs.map GroupBinding.slot).Nodup ∧ Dense bs := by
  rw [← firstClash_none]
  have h := getBindGroupDataOf_spec bs
  cases hf : firstClash bs with
  | some b =>
    rw [hf] at h; simp only at h
    rw [h]; simp
  | none =>
    rw [hf] at h; simp only at h
    constructor
    · rintro ⟨gs, e⟩
      rcases h with ⟨d, _⟩ | ⟨_, h1⟩
      · exact ⟨rfl, d⟩
      · rw [h1] at e; cases e
    · rintro ⟨_, d⟩
      rcases h with ⟨_, gs, h1, _⟩ | ⟨nd, _⟩
      · exact ⟨gs, h1⟩
      · exact absurd d nd

theorem lookup_of_mem : ∀ (gs : Groups) (g : Nat) (l : List GroupBinding), Sorted gs →
    (g, l) ∈ gs → lookup gs g = l := by
  intro gs
  induction gs with
  | nil => intro g l _ hm; cases hm
  | cons x rest ih =>
    obtain ⟨k, bs'⟩ := x
    intro g l hs hm
    rw [lookup_cons]
    rcases List.mem_cons.mp hm with e | hm'
    · cases e; simp
    · have := hs.head_lt g l hm'
      rw [if_neg (by omega)]
      exact ih g l hs.tail hm'

/-- C11 (content): on success the map has keys `0..n-1` in order, and group `g` holds exactly
the variables declared with `@group(g)`, each once, with its own index, in declaration order;
no group is empty, none is merged or renumbered. -/
theorem C11_ok_content (bs : List GroupBinding) (gs : Groups)
    (h : getBindGroupDataOf bs = .ok gs) :
    gs.map (·.1) = List.range gs.length ∧
    (∀ g, lookup gs g = bs.filter (·.group = g)) ∧
    (∀ g l, (g, l) ∈ gs → l = bs.filter (·.group = g) ∧ l ≠ []) := by
  have hs := getBindGroupDataOf_spec bs
  cases hf : firstClash bs with
  | some b => rw [hf] at hs; simp only at hs; rw [hs] at h; cases h
  | none =>
    rw [hf] at hs; simp only at hs
    rcases hs with ⟨_, gs', h1, hr, hk, hm⟩ | ⟨_, h1⟩
    · rw [h1] at h; injection h with h; subst h
      refine ⟨hk, fun g => hr.content g (Nat.zero_le _), ?_⟩
      intro g l hml
      have hl : l = bs.filter (·.group = g) := by
        rw [← hr.content g (Nat.zero_le _), lookup_of_mem gs' g l hr.sorted hml]
      refine ⟨hl, ?_⟩
      obtain ⟨b, hb, hg⟩ := (hm g).mp ⟨l, hml⟩
      rw [hl]
      intro hnil
      have : b ∈ bs.filter (·.group = g) := by simp [List.mem_filter, hb, hg]
      rw [hnil] at this; cases this
    · rw [h1] at h; cases h

/-- C11 (totality): the only outcomes are success or one of the two dedicated errors –
there is no panic path in the traversal. -/
theorem C11_total (bs : List GroupBinding) :
    (∃ gs, getBindGroupDataOf bs = .ok gs) ∨
    (∃ n, getBindGroupDataOf bs = .error (.duplicateBinding n)) ∨
    getBindGroupDataOf bs = .error .nonConsecutive := by
  have hs := getBindGroupDataOf_spec bs
  cases hf : firstClash bs with
  | some b => rw [hf] at hs; exact Or.inr (Or.inl ⟨_, hs⟩)
  | none =>
    rw [hf] at hs; simp only at hs
    rcases hs with ⟨_, gs, h1, _⟩ | ⟨_, h1⟩
    · exact Or.inl ⟨gs, h1⟩
    · exact Or.inr (Or.inr h1)

/-! ### Executable form of the specification (what the driver evaluates on real outputs) -/

/-- one more than the largest used group index (0 when no variable is bound) -/
def groupCount (bs : List GroupBinding) : Nat := bs.foldr (fun b a => max (b.group + 1) a) 0

/-- every used group index is 0 or has its predecessor used (no ranges: indices go up to 2^32) -/
def denseB (bs : List GroupBinding) : Bool :=
  bs.all fun b => b.group = 0 || bs.any (fun b' => b'.group + 1 = b.group)

theorem lt_groupCount {bs : List GroupBinding} {b : GroupBinding} (h : b ∈ bs) :
    b.group < groupCount bs := by
  induction bs with
  | nil => cases h
  | cons x xs ih =>
    simp only [groupCount, List.foldr_cons]
    rcases List.mem_cons.mp h with e | h
    · subst e; omega
    · have := ih h; simp only [groupCount] at this; omega

theorem groupCount_witness (bs : List GroupBinding) :
    groupCount bs = 0 ∨ ∃ b ∈ bs, b.group + 1 = groupCount bs := by
  induction bs with
  | nil => left; rfl
  | cons x xs ih =>
    right
    simp only [groupCount, List.foldr_cons]
    by_cases h : x.group + 1 ≥ groupCount xs
    · exact ⟨x, by simp, by simp only [groupCount] at h; omega⟩
    · rcases ih with e | ⟨b, hb, e⟩
      · omega
      · exact ⟨b, List.mem_cons_of_mem _ hb, by simp only [groupCount] at h e ⊢; omega⟩

theorem dense_count {bs : List GroupBinding} {n : Nat}
    (h : ∀ g, (∃ b ∈ bs, b.group = g) ↔ g < n) : n = groupCount bs := by
  have h1 : groupCount bs ≤ n := by
    rcases groupCount_witness bs with e | ⟨b, hb, e⟩
    · omega
    · have := (h b.group).mp ⟨b, hb, rfl⟩; omega
  have h2 : n ≤ groupCount bs := by
    cases n with
    | zero => omega
    | succ k =>
      obtain ⟨b, hb, e⟩ := (h k).mpr (by omega)
      have := lt_groupCount hb; omega
  omega

theorem denseB_iff (bs : List GroupBinding) : denseB bs = true ↔ Dense bs := by
  simp only [denseB, List.all_eq_true, Bool.or_eq_true, List.any_eq_true, decide_eq_true_eq]
  constructor
  · intro h
    -- predecessor-closed + contains groupCount-1  ⇒  contains everything below groupCount
    have down : ∀ k, k < groupCount bs → ∃ b ∈ bs, b.group = groupCount bs - 1 - k := by
      intro k
      induction k with
      | zero =>
        intro hk
        rcases groupCount_witness bs with e | ⟨b, hb, e⟩
        · omega
        · exact ⟨b, hb, by omega⟩
      | succ k ih =>
        intro hk
        obtain ⟨b, hb, e⟩ := ih (by omega)
        rcases h b hb with h0 | ⟨b', hb', e'⟩
        · omega
        · exact ⟨b', hb', by omega⟩
    refine ⟨groupCount bs, fun g => ⟨fun ⟨b, hb, e⟩ => e ▸ lt_groupCount hb, fun hg => ?_⟩⟩
    obtain ⟨b, hb, e⟩ := down (groupCount bs - 1 - g) (by omega)
    exact ⟨b, hb, by omega⟩
  · rintro ⟨n, hn⟩ b hb
    by_cases h0 : b.group = 0
    · exact Or.inl h0
    · right
      have := (hn b.group).mp ⟨b, hb, rfl⟩
      obtain ⟨b', hb', e⟩ := (hn (b.group - 1)).mpr (by omega)
      exact ⟨b', hb', by omega⟩

/-- The whole contract as one executable function of the declared (@group,@binding) list. -/
def specOutcome (bs : List GroupBinding) : Except GenError Groups :=
  match firstClash bs with
  | some b => .error (.duplicateBinding b.binding)
  | none =>
    if denseB bs then
      .ok ((List.range (groupCount bs)).map fun g => (g, bs.filter (·.group = g)))
    else .error .nonConsecutive

/-- C11 in one line: the traversal computes exactly the contract. -/
theorem C11_exec (bs : List GroupBinding) : getBindGroupDataOf bs = specOutcome bs := by
  have hs := getBindGroupDataOf_spec bs
  unfold specOutcome
  cases hf : firstClash bs with
  | some b => rw [hf] at hs; exact hs
  | none =>
    rw [hf] at hs; simp only at hs ⊢
    rcases hs with ⟨d, gs, h1, hr, hk, hm⟩ | ⟨nd, h1⟩
    · rw [if_pos ((denseB_iff bs).mpr d), h1]
      congr 1
      have hlen : gs.length = groupCount bs := by
        apply dense_count
        intro g
        rw [← hm g, ← keys_mem_iff, hk, List.mem_range]
      rw [← hlen]
      apply List.ext_getElem
      · simp
      · intro i h1 h2
        simp only [List.getElem_map, List.getElem_range]
        have hi : (gs.map (·.1))[i]'(by simpa using h1) = i := by
          simp only [hk, List.getElem_range]
        have hmem : gs[i] ∈ gs := List.getElem_mem h1
        generalize hgi : gs[i] = x at hmem hi
        obtain ⟨k, l⟩ := x
        have hk' : k = i := by
          simp only [List.getElem_map, hgi] at hi; exact hi
        subst hk'
        have := lookup_of_mem gs k l hr.sorted hmem
        rw [hr.content k (Nat.zero_le _)] at this
        rw [this]
    · have : denseB bs = false := by
        cases hb : denseB bs with
        | false => rfl
        | true => exact absurd ((denseB_iff bs).mp hb) nd
      rw [this, h1]; rfl

/-! ### Non-vacuity: concrete inputs meeting each case -/

private def gb (g b : Nat) : GroupBinding := ⟨g, b, none, 0, .uniform⟩

example : getBindGroupDataOf [gb 1 0, gb 0 3, gb 0 1, gb 1 7] =
    .ok [(0, [gb 0 3, gb 0 1]), (1, [gb 1 0, gb 1 7])] := rfl
example : getBindGroupDataOf [gb 0 0, gb 2 0] = .error .nonConsecutive := rfl
example : getBindGroupDataOf [gb 0 0, gb 1 5, gb 0 5, gb 1 5, gb 0 5] =
    .error (.duplicateBinding 5) := rfl
example : firstClash [gb 0 0, gb 1 5, gb 0 5, gb 1 5, gb 0 5] = some (gb 1 5) := rfl

end WgslVerif
