import WgslVerif.Lemmas.StagesEntry
/-
C20 – Generation cost stays polynomial in shader size and call depth (stage traversal part;
the type-closure part is in Props/C20Types.lean).

The model's traversal counts its own steps (`fnVisits` = invocations of `update_stages`,
`stmtVisits` = statements visited by `update_stages_blocks`); the cfg-guarded hooks in /repo
count the same events in the real code and the correspondence check demands equality.
Partial: wall-clock is runtime behaviour; the theorem bounds the number of steps.
-/
namespace WgslVerif

/-- largest number of statements in the body of an entry function -/
def maxEntryTicks (m : Module) : Nat :=
  (m.entries.map fun e => ticksOf (evFn m e.fn)).foldr max 0

theorem entryTicks_le_max (m : Module) (e : EntryPoint) (he : e ∈ m.entries) :
    ticksOf (evFn m e.fn) ≤ maxEntryTicks m := by
  unfold maxEntryTicks
  generalize m.entries = es at he
  induction es with
  | nil => cases he
  | cons x xs ih =>
    simp only [List.map_cons, List.foldr_cons]
    rcases List.mem_cons.mp he with e' | hx
    · subst e'; exact Nat.le_max_left _ _
    · exact Nat.le_trans (ih hx) (Nat.le_max_right _ _)

theorem stmt_fold_bound (m : Module) (hv : CallsEarlier m) :
    ∀ (es : List EntryPoint), (∀ e ∈ es, e ∈ m.entries) → ∀ (st : StState),
      (es.foldl (entryStep m) st).stmtVisits ≤
        st.stmtVisits + es.length * (maxEntryTicks m + maxTicks m * m.functions.length) := by
  intro es
  induction es with
  | nil => intro _ st; simp
  | cons e es ih =>
    intro hsub st
    have he := hsub e (by simp)
    obtain ⟨_, _, _, t1⟩ := entryStep_spec m hv e he st
    have t2 := ih (fun x hx => hsub x (by simp [hx])) (entryStep m st e)
    have t3 := entryTicks_le_max m e he
    simp only [List.foldl_cons, List.length_cons]
    have : (es.length + 1) * (maxEntryTicks m + maxTicks m * m.functions.length) =
        es.length * (maxEntryTicks m + maxTicks m * m.functions.length) +
          (maxEntryTicks m + maxTicks m * m.functions.length) := by
      rw [Nat.add_mul, Nat.one_mul]
    omega

/-- **C20** (function visits): `update_stages` runs at most once per entry point and reachable
function – linear in entries × functions, whatever the depth or shape of the call graph. -/
theorem C20_stage_fn_visits (m : Module) (hv : CallsEarlier m) :
    (globalShaderStagesSt m).fnVisits ≤ m.entries.length * (1 + m.functions.length) := by
  have := (entries_fold_spec m hv m.entries (fun _ h => h)
    { stages := [], visited := [], fnVisits := 0, stmtVisits := 0 }).2.2
  simpa [globalShaderStagesSt] using this

/-- **C20** (statement visits): the number of statements walked is bounded by
entries × (largest entry body + largest function body × functions). -/
theorem C20_stage_stmt_visits (m : Module) (hv : CallsEarlier m) :
    (globalShaderStagesSt m).stmtVisits ≤
      m.entries.length * (maxEntryTicks m + maxTicks m * m.functions.length) := by
  have := stmt_fold_bound m hv m.entries (fun _ h => h)
    { stages := [], visited := [], fnVisits := 0, stmtVisits := 0 }
  simpa [globalShaderStagesSt] using this

/-! ### The finding this property was written for: the un-memoised traversal

`Legacy.visits` follows every call site (a value-returning call is both a `Call` statement
and a `CallResult` expression, hence two edges) – the behaviour of the code before the
repair. On a chain of value-returning calls it makes `2^(n+1) - 1` invocations. -/
namespace Legacy

def visits (succ : Nat → List Nat) : Nat → Nat → Nat
  | 0, _ => 1
  | fuel + 1, n => 1 + ((succ n).map (visits succ fuel)).sum

/-- function `n+1` calls function `n` through a call statement and reads its call result -/
def chainFn : Nat → Fn
  | 0 => { name := none, args := [], result := none, body := [], exprs := [.global 0] }
  | n + 1 => { name := none, args := [], result := none, body := [.call n true],
               exprs := [.callResult n] }

def chainModule (n : Nat) : Module :=
  { types := [], globals := [], consts := [], overrides := [],
    functions := (List.range (n + 1)).map chainFn, entries := [] }

theorem succOf_chain (n h : Nat) (hh : h ≤ n) :
    succOf (chainModule n) h = match h with | 0 => [] | k + 1 => [k, k] := by
  unfold succOf chainModule
  have : ((List.range (n + 1)).map chainFn)[h]? = some (chainFn h) := by
    rw [List.getElem?_map, List.getElem?_range (by omega)]; rfl
  simp only [this]
  cases h with
  | zero => simp [chainFn, evFn, evList, evExprs, callsOf]
  | succ k => simp [chainFn, evFn, evList, evStmt, evExprs, callsOf]

theorem chain_blowup (n : Nat) : ∀ h fuel, h ≤ n → h ≤ fuel →
    visits (succOf (chainModule n)) fuel h + 1 = 2 ^ (h + 1) := by
  intro h
  induction h with
  | zero =>
    intro fuel hn _
    cases fuel with
    | zero => simp [visits]
    | succ f => simp [visits, succOf_chain n 0 hn]
  | succ k ih =>
    intro fuel hn hf
    cases fuel with
    | zero => omega
    | succ f =>
      have := ih f (by omega) (by omega)
      simp only [visits, succOf_chain n (k + 1) hn, List.map_cons, List.map_nil, List.sum_cons,
        List.sum_nil]
      rw [Nat.pow_succ]; omega

private def chainEntryFn : Fn :=
  { name := none, args := [], result := none, body := [.call 20 true], exprs := [.callResult 20] }
private def chainEntry : EntryPoint :=
  { name := "main", upper := "MAIN", stage := .compute, wg := (1, 1, 1), fn := chainEntryFn }

/-- The memoised traversal on the same chain: `n + 1` invocations plus the entry's own. -/
example : (globalShaderStagesSt { chainModule 20 with entries := [chainEntry] }).fnVisits = 22 := by
  decide +kernel

end Legacy
end WgslVerif
