import WgslVerif.Props.C06
/-
C06 (representation clause): "… under the selected representation (plain arrays, glam types falling
back to arrays where glam has no equivalent, or nalgebra types)".  `reprOk` says, guided by the WGSL
type alone, which family of Rust type each level must come from; it does not mention the
generator's mapping functions.
-/
namespace WgslVerif

/-- glam has a vector type for this scalar: f32 / f64 / u32 / i32 -/
def glamHasVec (s : Scalar) : Bool :=
  (s.kind == .float && (s.width == 4 || s.width == 8)) || ((s.kind == .uint || s.kind == .sint) && s.width == 4)

/-- glam has a matrix type for this shape: square, f32 or f64 -/
def glamHasMat (cols rows : VecSize) (width : Nat) : Bool := cols == rows && (width == 4 || width == 8)

def isPrim : RustTy → Bool | .prim _ => true | _ => false
def isPrimArray : RustTy → Bool | .array (.prim _) _ => true | _ => false
def isPrimArray2 : RustTy → Bool | .array (.array (.prim _) _) _ => true | _ => false
def isGlam : RustTy → Bool | .glam _ => true | _ => false
def isNalgebraV : RustTy → Bool | .nalgebraV (.prim _) _ => true | _ => false
def isNalgebraM : RustTy → Bool | .nalgebraM (.prim _) _ _ => true | _ => false
def isNamed : RustTy → Bool | .named _ => true | _ => false

/-- the Rust type comes from the family the selected representation prescribes for the WGSL type -/
def reprOk (m : Module) (repr : Repr3) : Nat → Ty → RustTy → Bool
  | 0, _, _ => false
  | fuel + 1, ty, r =>
    match ty.inner with
    | .scalar _ => isPrim r
    | .atomic _ => isPrim r
    | .vector _ s =>
      match repr with
      | .rust => isPrimArray r
      | .glam => if glamHasVec s then isGlam r else isPrimArray r
      | .nalgebra => isNalgebraV r
    | .matrix cols rows s =>
      match repr with
      | .rust => isPrimArray2 r
      | .glam => if glamHasMat cols rows s.width then isGlam r else isPrimArray2 r
      | .nalgebra => isNalgebraM r
    | .array base (.const _) _ =>
      (match r, m.types[base]? with
       | .array e _, some bt => reprOk m repr fuel bt e
       | _, _ => false)
    | .struct .. => isNamed r
    | _ => false

theorem rustScalar_isPrim {s : Scalar} {r : RustTy} (h : rustScalarType s = .ok r) : isPrim r = true := by
  unfold rustScalarType at h
  split at h <;> first | (injection h with h; subst h; rfl) | (simp [todo] at h)

theorem rustVector_isPrimArray {n : VecSize} {s : Scalar} {r : RustTy} (h : rustVectorType n s = .ok r) :
    isPrimArray r = true := by
  unfold rustVectorType at h
  obtain ⟨t, ht, h⟩ := Except.bind_ok h
  injection h with h; subst h
  have := rustScalar_isPrim ht
  cases t <;> simp_all [isPrim, isPrimArray]

theorem rustMatrix_isPrimArray2 {rows cols : VecSize} {w : Nat} {r : RustTy} (h : rustMatrixType rows cols w = .ok r) :
    isPrimArray2 r = true := by
  unfold rustMatrixType at h
  obtain ⟨t, ht, h⟩ := Except.bind_ok h
  injection h with h; subst h
  have := rustScalar_isPrim ht
  cases t <;> simp_all [isPrim, isPrimArray2]

theorem glamVector_repr (n : VecSize) (k : ScalarKind) (w : Nat) (r : RustTy)
    (h : glamVectorType n ⟨k, w⟩ = .ok r) :
    (if glamHasVec ⟨k, w⟩ then isGlam r else isPrimArray r) = true := by
  by_cases h4 : w = 4
  · subst h4
    cases n <;> cases k <;> simp [glamVectorType, glamHasVec] at h ⊢ <;>
      first | (subst h; rfl) | (exact rustVector_isPrimArray h)
  · by_cases h8 : w = 8
    · subst h8
      cases n <;> cases k <;> simp [glamVectorType, glamHasVec] at h ⊢ <;>
        first | (subst h; rfl) | (exact rustVector_isPrimArray h)
    · have e : glamVectorType n ⟨k, w⟩ = rustVectorType n ⟨k, w⟩ := by
        unfold glamVectorType; split <;> simp_all
      rw [e] at h
      have hv : glamHasVec ⟨k, w⟩ = false := by simp [glamHasVec, h4, h8]
      rw [hv]; exact rustVector_isPrimArray h

theorem glamMatrix_repr (rows cols : VecSize) (w : Nat) (r : RustTy)
    (h : glamMatrixType rows cols w = .ok r) :
    (if glamHasMat cols rows w then isGlam r else isPrimArray2 r) = true := by
  by_cases h4 : w = 4
  · subst h4
    cases rows <;> cases cols <;> simp [glamMatrixType, glamHasMat] at h ⊢ <;>
      first | (subst h; rfl) | (exact rustMatrix_isPrimArray2 h)
  · by_cases h8 : w = 8
    · subst h8
      cases rows <;> cases cols <;> simp [glamMatrixType, glamHasMat] at h ⊢ <;>
        first | (subst h; rfl) | (exact rustMatrix_isPrimArray2 h)
    · have e : glamMatrixType rows cols w = rustMatrixType rows cols w := by
        unfold glamMatrixType; split <;> simp_all
      rw [e] at h
      have hv : glamHasMat cols rows w = false := by simp [glamHasMat, h4, h8]
      rw [hv]; exact rustMatrix_isPrimArray2 h

/-- **C06** (representation): every type the generator emits comes from the family the selected
representation prescribes – glam types exactly where glam has an equivalent, plain arrays
otherwise, nalgebra types under Nalgebra. -/
theorem C06_repr (m : Module) (repr : Repr3) : ∀ fuel ty r, rustType m repr fuel ty = .ok r →
    reprOk m repr fuel ty r = true := by
  intro fuel
  induction fuel with
  | zero => intro ty r h; rw [rustType] at h; cases h
  | succ fuel ih =>
    intro ty r h
    rw [rustType] at h
    rw [reprOk]
    cases hi : ty.inner with
    | scalar s => rw [hi] at h; exact rustScalar_isPrim h
    | atomic s => rw [hi] at h; exact rustScalar_isPrim h
    | vector n s =>
      rw [hi] at h
      cases repr <;> simp only at h ⊢
      · exact rustVector_isPrimArray h
      · obtain ⟨k, w⟩ := s; exact glamVector_repr n k w r h
      · unfold nalgebraVectorType at h
        obtain ⟨t, ht, h⟩ := Except.bind_ok h
        injection h with h; subst h
        have hp := rustScalar_isPrim ht
        cases t <;> first | rfl | (simp [isPrim] at hp)
    | matrix cols rows s =>
      rw [hi] at h
      cases repr <;> simp only at h ⊢
      · exact rustMatrix_isPrimArray2 h
      · exact glamMatrix_repr rows cols s.width r h
      · unfold nalgebraMatrixType at h
        obtain ⟨t, ht, h⟩ := Except.bind_ok h
        injection h with h; subst h
        have hp := rustScalar_isPrim ht
        cases t <;> first | rfl | (simp [isPrim] at hp)
    | array base sz stride =>
      rw [hi] at h
      cases sz with
      | const n =>
        simp only at h ⊢
        cases hb : m.types[base]? with
        | none => rw [hb] at h; cases h
        | some bt =>
          rw [hb] at h
          simp only at h
          obtain ⟨e, he, h⟩ := Except.bind_ok h
          injection h with h; subst h
          exact ih bt e he
      | dynamic => cases h
      | pending => simp [todo] at h
    | struct ms sp =>
      rw [hi] at h
      simp only at h ⊢
      cases hn : ty.name with
      | none => rw [hn] at h; cases h
      | some nm => rw [hn] at h; injection h with h; subst h; rfl
    | image d a c => rw [hi] at h; simp [todo] at h
    | sampler c => rw [hi] at h; simp [todo] at h
    | pointer b => rw [hi] at h; simp [todo] at h
    | valuePointer => rw [hi] at h; simp [todo] at h
    | accel => rw [hi] at h; simp [todo] at h
    | rayQuery => rw [hi] at h; simp [todo] at h
    | bindingArray b => rw [hi] at h; simp [todo] at h

end WgslVerif
