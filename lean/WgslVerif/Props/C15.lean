import WgslVerif.Lemmas.Gen
/-
C15 – Module constants are exported with the WGSL type and exact value.
Partial: the decimal text of a float literal is produced by Rust's `Display` and read back by
rustc; the model carries the value as IEEE bits (the extractor re-parses every emitted literal
with Rust's own parser and reports bits).
-/
namespace WgslVerif

/-- the Rust primitive corresponding to the literal's WGSL type -/
def primOfLit : Lit → String
  | .f64 _ => "f64" | .f32 _ => "f32" | .u32 _ => "u32" | .i32 _ => "i32" | .u64 _ => "u64"
  | .i64 _ => "i64" | .bool _ => "bool" | .abstractInt _ => "i64" | .abstractFloat _ => "f64"

/-- the exact value of the literal, typed by `primOfLit` -/
def valueOfLit : Lit → LitVal
  | .f64 b => .fval b "f64" | .f32 b => .fval b "f32" | .u32 n => .ival n "u32" | .i32 n => .ival n "i32"
  | .u64 n => .ival n "u64" | .i64 n => .ival n "i64" | .bool b => .bval b
  | .abstractInt n => .ival n "i64" | .abstractFloat b => .fval b "f64"

/-- what the property prescribes for one WGSL constant -/
def specConst (c : Const) : Option RConst :=
  match c.name, c.init with
  | some n, some l => some { name := n, ty := primOfLit l, val := valueOfLit l }
  | _, _ => none

/-- the exported constants are exactly the named scalar constants, in order, each with the type
of its literal and its exact value -/
def C15Ok (m : Module) (out : Out) : Prop := out.consts = m.consts.filterMap specConst

instance (m : Module) (out : Out) : Decidable (C15Ok m out) := by unfold C15Ok; infer_instance

/-- the emitted declared type and value are the literal's own -/
theorem constTypeAndValue_spec (l : Lit) : constTypeAndValue l = (primOfLit l, valueOfLit l) := by
  cases l <;> rfl

/-- **C15**: the exported constants are exactly the named scalar constants, in declaration order,
each with the Rust type of its literal and its exact value. -/
theorem C15 {m : Module} {o : Options} {src : String} {path : Option String} {out : Out}
    (hg : gen m o src path = .ok out) : C15Ok m out := by
  have hp := gen_ok hg
  unfold C15Ok
  rw [hp.consts]
  unfold consts specConst
  simp only [constTypeAndValue_spec]
  rfl

/-- The finding this check made (repaired in /repo by "fix: export f64 constants with type f64"):
the code before the repair chose the declared type `f32` for an `f64` literal, so
`const A: f64 = 1.5lf` was exported as `pub const A: f32 = 1.5f64;`. -/
def Legacy.constTypeAndValue : Lit → String × LitVal
  | .f64 b => ("f32", .fval b "f64")
  | l => WgslVerif.constTypeAndValue l

theorem C15_legacy_counterexample :
    Legacy.constTypeAndValue (.f64 4609434218613702656) ≠
      (primOfLit (.f64 4609434218613702656), valueOfLit (.f64 4609434218613702656)) := by decide

/-- **C15** (skipped, never mis-emitted): a constant without a scalar literal value is not exported. -/
theorem C15_skip {m : Module} {o : Options} {src : String} {path : Option String} {out : Out}
    (hg : gen m o src path = .ok out) (rc : RConst) (hrc : rc ∈ out.consts) :
    ∃ c ∈ m.consts, c.name = some rc.name ∧ c.init.isSome = true := by
  have hp := gen_ok hg
  rw [hp.consts] at hrc
  unfold consts at hrc
  obtain ⟨c, hc, hf⟩ := List.mem_filterMap.mp hrc
  refine ⟨c, hc, ?_⟩
  cases hn : c.name with
  | none => rw [hn] at hf; cases hf
  | some n =>
    cases hi : c.init with
    | none => rw [hn, hi] at hf; cases hf
    | some l =>
      rw [hn, hi] at hf
      injection hf with hf; subst hf
      exact ⟨rfl, rfl⟩

end WgslVerif
