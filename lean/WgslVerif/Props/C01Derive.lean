import WgslVerif.Lemmas.Gen
import WgslVerif.Props.C08
import WgslVerif.Ext.RustStatic
/-
C01, derive obligations: every `#[derive(..)]` the generator writes on a struct is satisfiable by
every field type of that struct (`RustStatic.deriveIssues out = []`), for every module whose member
types avoid the three recorded classes (a `bool` under Pod / ShaderType, `f64` under ShaderType, an
array longer than 32 under serde) – stated on the WGSL side as the decidable predicate `tyImpl`.
-/
namespace WgslVerif
open RustStatic

/-! ### WGSL-side reading of "implements" -/

/-- does the Rust type of a WGSL scalar implement the trait? -/
def scalarImpl (tr : String) (s : Scalar) : Bool :=
  if tr == "bytemuck::Pod" then s.kind != .bool
  else if tr == "encase::ShaderType" then
    s.width == 4 && (s.kind == .float || s.kind == .uint || s.kind == .sint)
  else true

def arrLenImpl (tr : String) (n : Nat) : Bool :=
  if tr == "serde::Serialize" || tr == "serde::Deserialize" then decide (n ≤ 32)
  else if tr == "encase::ShaderType" then n != 0
  else true

/-- WGSL side: the member type's leaves implement `tr` (struct leaves are answered separately) -/
def tyImpl (m : Module) (tr : String) : Nat → Ty → Bool
  | 0, _ => false
  | fuel + 1, ty =>
    match ty.inner with
    | .scalar s => scalarImpl tr s
    | .atomic s => scalarImpl tr s
    | .vector _ s => scalarImpl tr s
    | .matrix _ _ s => scalarImpl tr ⟨.float, s.width⟩
    | .array base (.const n) _ =>
      arrLenImpl tr n && (match m.types[base]? with | some bt => tyImpl m tr fuel bt | none => false)
    | _ => true

/-- the trait ignores struct leaves: `implementsWith (fun _ => true)` -/
abbrev leafImpl (tr : String) (r : RustTy) : Bool := implementsWith (fun _ => true) tr r

theorem scalar_leaf {tr : String} {s : Scalar} {r : RustTy} (h : rustScalarType s = .ok r)
    (hi : scalarImpl tr s = true) : leafImpl tr r = true := by
  unfold rustScalarType at h
  unfold scalarImpl at hi
  split at h <;> first | (unfold todo at h; cases h) | skip
  all_goals (
    cases h
    simp only [leafImpl, implementsWith, shaderTypeScalars]
    generalize (tr == "bytemuck::Pod") = p at hi ⊢
    generalize (tr == "encase::ShaderType") = q at hi ⊢
    cases p <;> cases q <;> simp_all)

theorem vecSize_toNat_le (n : VecSize) : n.toNat ≤ 32 ∧ n.toNat ≠ 0 := by
  cases n <;> simp [VecSize.toNat]

theorem array_leaf {tr : String} {t : RustTy} {n : Nat} (ht : leafImpl tr t = true)
    (hn : arrLenImpl tr n = true) : leafImpl tr (.array t n) = true := by
  unfold arrLenImpl at hn
  simp only [leafImpl, implementsWith]
  split
  · rename_i h1; rw [if_pos h1] at hn; simp [hn, ht]
  · rename_i h1
    rw [if_neg h1] at hn
    split
    · rename_i h2; rw [if_pos h2] at hn; simp [hn, ht]
    · exact ht

theorem arrLen_small {tr : String} {n : Nat} (h : n ≤ 32 ∧ n ≠ 0) : arrLenImpl tr n = true := by
  unfold arrLenImpl
  split
  · simp [h.1]
  · split
    · simp [h.2]
    · rfl

theorem rustVector_leaf {tr : String} {n : VecSize} {s : Scalar} {r : RustTy}
    (h : rustVectorType n s = .ok r) (hi : scalarImpl tr s = true) : leafImpl tr r = true := by
  unfold rustVectorType at h
  obtain ⟨t, ht, h⟩ := Except.bind_ok h
  cases h
  exact array_leaf (scalar_leaf ht hi) (arrLen_small (vecSize_toNat_le n))

theorem glam_leaf_other {tr : String} {g : String} (h : (tr == "encase::ShaderType") = false) :
    leafImpl tr (.glam g) = true := by
  simp [leafImpl, implementsWith, h]

theorem glamVector_leaf {tr : String} {n : VecSize} {s : Scalar} {r : RustTy}
    (h : glamVectorType n s = .ok r) (hi : scalarImpl tr s = true) : leafImpl tr r = true := by
  unfold glamVectorType at h
  split at h
  case h_13 => exact rustVector_leaf h hi
  all_goals (
    cases h
    by_cases hs : (tr == "encase::ShaderType") = true
    · unfold scalarImpl at hi
      simp only [leafImpl, implementsWith, hs, if_true, shaderTypeGlam]
      first
        | decide
        | (exfalso
           have hp : (tr == "bytemuck::Pod") = false := by
             have := eq_of_beq hs; subst this; decide
           simp [hp, hs] at hi <;> omega)
    · exact glam_leaf_other (by simpa using hs))

theorem rustMatrix_leaf {tr : String} {rows cols : VecSize} {w : Nat} {r : RustTy}
    (h : rustMatrixType rows cols w = .ok r) (hi : scalarImpl tr ⟨.float, w⟩ = true) : leafImpl tr r = true := by
  unfold rustMatrixType at h
  obtain ⟨t, ht, h⟩ := Except.bind_ok h
  cases h
  exact array_leaf (array_leaf (scalar_leaf ht hi) (arrLen_small (vecSize_toNat_le cols)))
    (arrLen_small (vecSize_toNat_le rows))

theorem glamMatrix_leaf {tr : String} {rows cols : VecSize} {w : Nat} {r : RustTy}
    (h : glamMatrixType rows cols w = .ok r) (hi : scalarImpl tr ⟨.float, w⟩ = true) : leafImpl tr r = true := by
  unfold glamMatrixType at h
  split at h
  case h_7 => exact rustMatrix_leaf h hi
  all_goals (
    cases h
    by_cases hs : (tr == "encase::ShaderType") = true
    · unfold scalarImpl at hi
      simp only [leafImpl, implementsWith, hs, if_true, shaderTypeGlam]
      first
        | decide
        | (exfalso
           have hp : (tr == "bytemuck::Pod") = false := by
             have := eq_of_beq hs; subst this; decide
           simp [hp, hs] at hi <;> omega)
    · exact glam_leaf_other (by simpa using hs))

/-- **leaf lemma**: the Rust type chosen for a WGSL type implements `tr` on all its non-struct leaves
whenever the WGSL type does (`tyImpl`), in all three representations. -/
theorem rustType_leaf (m : Module) (repr : Repr3) (tr : String) :
    ∀ fuel ty r, rustType m repr fuel ty = .ok r → tyImpl m tr fuel ty = true → leafImpl tr r = true := by
  intro fuel
  induction fuel with
  | zero => intro ty r h; cases h
  | succ fuel ih =>
    intro ty r h hi
    unfold rustType at h
    unfold tyImpl at hi
    split at h
    case h_1 s hin => simp only [hin] at hi; exact scalar_leaf h hi
    case h_2 n s hin =>
      simp only [hin] at hi
      cases repr
      · exact rustVector_leaf h hi
      · exact glamVector_leaf h hi
      · unfold nalgebraVectorType at h
        obtain ⟨t, _, h⟩ := Except.bind_ok h
        cases h; rfl
    case h_3 cols rows s hin =>
      simp only [hin] at hi
      cases repr
      · exact rustMatrix_leaf h hi
      · exact glamMatrix_leaf h hi
      · unfold nalgebraMatrixType at h
        obtain ⟨t, _, h⟩ := Except.bind_ok h
        cases h; rfl
    case h_6 s hin => simp only [hin] at hi; exact scalar_leaf h hi
    case h_9 base n stride hin =>
      simp only [hin] at hi
      split at h
      · rename_i bt hb
        obtain ⟨e, he, h⟩ := Except.bind_ok h
        cases h
        simp only [hb, Bool.and_eq_true] at hi
        exact array_leaf (ih bt e he hi.2) hi.1
      · cases h
    case h_12 members span hin =>
      split at h
      · cases h; rfl
      · cases h
    all_goals first | (cases h) | (unfold todo at h; cases h)

/-! ### Fields come from members -/

/-- how a field arises from a member (`struct_members`) -/
def FieldFrom (m : Module) (o : Options) (mem : Member) (f : RField) : Prop :=
  ∃ ty, m.types[mem.ty]? = some ty ∧ mem.name = some f.name ∧
    ((∃ base stride bt e, ty.inner = .array base .dynamic stride ∧ m.types[base]? = some bt ∧
        rustType m o.repr (typeFuel m) bt = .ok e ∧ f.ty = .vec e ∧ f.runtime = true) ∨
     ((∀ base stride, ty.inner ≠ .array base .dynamic stride) ∧
        rustType m o.repr (typeFuel m) ty = .ok f.ty ∧ f.runtime = false))

theorem member_fieldFrom {m : Module} {o : Options} {len idx : Nat} {mem : Member} {rest : List Member}
    {fs : List RField} (h : structMembersFrom m o len idx (mem :: rest) = .ok fs) :
    ∃ f fs', fs = f :: fs' ∧ structMembersFrom m o len (idx + 1) rest = .ok fs' ∧ FieldFrom m o mem f ∧
      (f.runtime = true → idx = len - 1) := by
  rw [structMembersFrom] at h
  obtain ⟨name, hn, h⟩ := Except.bind_ok h
  dsimp only at h
  have hname : mem.name = some name := by
    cases hmn : mem.name with
    | none => rw [hmn] at hn; cases hn
    | some n => rw [hmn] at hn; cases hn; rfl
  split at h
  case h_2 => obtain ⟨_, hc, _⟩ := Except.bind_ok h; cases hc
  rename_i ty htys
  obtain ⟨ty', hty', h⟩ := Except.bind_ok h
  cases hty'
  split at h
  · rename_i base stride hi
    split at h
    · obtain ⟨_, hc, _⟩ := Except.bind_ok h; cases hc
    · rename_i hidx
      split at h
      · rename_i bt hb
        obtain ⟨e, he, h⟩ := Except.bind_ok h
        obtain ⟨f, hf, h⟩ := Except.bind_ok h
        obtain ⟨fs', hfs, h⟩ := Except.bind_ok h
        cases hf; cases h
        refine ⟨_, fs', rfl, hfs, ⟨ty, htys, hname, Or.inl ⟨base, stride, bt, e, hi, hb, he, rfl, rfl⟩⟩, fun _ => ?_⟩
        exact Decidable.of_not_not hidx
      · obtain ⟨_, hc, _⟩ := Except.bind_ok h; cases hc
  · rename_i hne
    obtain ⟨t, ht, h⟩ := Except.bind_ok h
    obtain ⟨f, hf, h⟩ := Except.bind_ok h
    obtain ⟨fs', hfs, h⟩ := Except.bind_ok h
    cases hf; cases h
    refine ⟨_, fs', rfl, hfs, ⟨ty, htys, hname, Or.inr ⟨fun b st hc => hne b st hc, ht, rfl⟩⟩, fun hc => ?_⟩
    cases hc

/-- every field comes from a member; a runtime-sized field can only be the last one -/
theorem structMembersFrom_from {m : Module} {o : Options} {len : Nat} :
    ∀ (l : List Member) (idx : Nat) (fs : List RField), idx + l.length = len →
      structMembersFrom m o len idx l = .ok fs →
      (∀ f ∈ fs, ∃ mem ∈ l, FieldFrom m o mem f) ∧ (∀ f ∈ fs.dropLast, f.runtime = false) := by
  intro l
  induction l with
  | nil =>
    intro idx fs _ h
    rw [structMembersFrom] at h
    cases h
    refine ⟨?_, ?_⟩ <;> intro x hx <;> simp at hx
  | cons mem rest ih =>
    intro idx fs hlen h
    obtain ⟨f, fs', rfl, hrest, hf, hrt⟩ := member_fieldFrom h
    have hlen' : idx + 1 + rest.length = len := by simp only [List.length_cons] at hlen; omega
    obtain ⟨h1, h2⟩ := ih (idx + 1) fs' hlen' hrest
    refine ⟨fun x hx => ?_, fun x hx => ?_⟩
    · rcases List.mem_cons.mp hx with rfl | hx
      · exact ⟨mem, List.mem_cons_self, hf⟩
      · obtain ⟨mm, hmm, hff⟩ := h1 x hx
        exact ⟨mm, List.mem_cons_of_mem _ hmm, hff⟩
    · cases fs' with
      | nil => simp at hx
      | cons g gs =>
        rw [List.dropLast_cons_cons] at hx
        rcases List.mem_cons.mp hx with rfl | hx
        · cases hr : x.runtime with
          | false => rfl
          | true =>
            have := hrt hr
            -- the member is the last one, but a later field exists
            have hl : rest.length = 0 := by simp only [List.length_cons] at hlen; omega
            have : rest = [] := List.eq_nil_of_length_eq_zero hl
            subst this
            rw [structMembersFrom] at hrest
            cases hrest
        · exact h2 x hx

/-- field names are the member names, in order -/
theorem structMembersFrom_names {m : Module} {o : Options} {len : Nat} :
    ∀ (l : List Member) (idx : Nat) (fs : List RField), structMembersFrom m o len idx l = .ok fs →
      fs.map (fun f => some f.name) = l.map (·.name) := by
  intro l
  induction l with
  | nil =>
    intro idx fs h
    rw [structMembersFrom] at h
    cases h; rfl
  | cons mem rest ih =>
    intro idx fs h
    obtain ⟨f, fs', rfl, hrest, ⟨_, _, hn, _⟩, _⟩ := member_fieldFrom h
    simp only [List.map_cons]
    rw [ih (idx + 1) fs' hrest, hn]

/-! ### Struct leaves of a field type are reachable struct types -/

theorem scalar_named {s : Scalar} {r : RustTy} (h : rustScalarType s = .ok r) : namedIn r = [] := by
  unfold rustScalarType at h
  split at h <;> first | (unfold todo at h; cases h) | (cases h; rfl)

theorem rustVector_named {n : VecSize} {s : Scalar} {r : RustTy} (h : rustVectorType n s = .ok r) :
    namedIn r = [] := by
  unfold rustVectorType at h
  obtain ⟨t, ht, h⟩ := Except.bind_ok h
  cases h
  simpa [namedIn] using scalar_named ht

theorem rustMatrix_named {rows cols : VecSize} {w : Nat} {r : RustTy} (h : rustMatrixType rows cols w = .ok r) :
    namedIn r = [] := by
  unfold rustMatrixType at h
  obtain ⟨t, ht, h⟩ := Except.bind_ok h
  cases h
  simpa [namedIn] using scalar_named ht

theorem glamVector_named {n : VecSize} {s : Scalar} {r : RustTy} (h : glamVectorType n s = .ok r) :
    namedIn r = [] := by
  unfold glamVectorType at h
  split at h
  case h_13 => exact rustVector_named h
  all_goals (cases h; rfl)

theorem glamMatrix_named {rows cols : VecSize} {w : Nat} {r : RustTy} (h : glamMatrixType rows cols w = .ok r) :
    namedIn r = [] := by
  unfold glamMatrixType at h
  split at h
  case h_7 => exact rustMatrix_named h
  all_goals (cases h; rfl)

/-- a struct name mentioned by the Rust type of type `h` is the name of a struct type reachable from `h` -/
theorem rustType_named (m : Module) (repr : Repr3) :
    ∀ fuel h ty r, m.types[h]? = some ty → rustType m repr fuel ty = .ok r → ∀ n ∈ namedIn r,
      ∃ h' ty' ms sp, m.types[h']? = some ty' ∧ ty'.inner = .struct ms sp ∧ ty'.name = some n ∧ TyReach m h h' := by
  intro fuel
  induction fuel with
  | zero => intro h ty r _ hr; cases hr
  | succ fuel ih =>
    intro h ty r hty hr n hn
    unfold rustType at hr
    split at hr
    case h_1 s hin => rw [scalar_named hr] at hn; cases hn
    case h_2 nn s hin =>
      cases repr
      · rw [rustVector_named hr] at hn; cases hn
      · rw [glamVector_named hr] at hn; cases hn
      · unfold nalgebraVectorType at hr
        obtain ⟨t, ht, hr⟩ := Except.bind_ok hr
        cases hr
        simp only [namedIn] at hn
        rw [scalar_named ht] at hn; cases hn
    case h_3 cols rows s hin =>
      cases repr
      · rw [rustMatrix_named hr] at hn; cases hn
      · rw [glamMatrix_named hr] at hn; cases hn
      · unfold nalgebraMatrixType at hr
        obtain ⟨t, ht, hr⟩ := Except.bind_ok hr
        cases hr
        simp only [namedIn] at hn
        rw [scalar_named ht] at hn; cases hn
    case h_6 s hin => rw [scalar_named hr] at hn; cases hn
    case h_9 base k stride hin =>
      split at hr
      · rename_i bt hb
        obtain ⟨e, he, hr⟩ := Except.bind_ok hr
        cases hr
        simp only [namedIn] at hn
        obtain ⟨h', ty', ms, sp, a, b, c, d⟩ := ih base bt e hb he n hn
        refine ⟨h', ty', ms, sp, a, b, c, TyReach.step ?_ d⟩
        unfold typeSucc
        simp [hty, hin]
      · cases hr
    case h_12 members span hin =>
      split at hr
      · rename_i nm hnm
        cases hr
        simp only [namedIn, List.mem_singleton] at hn
        subst hn
        exact ⟨h, ty, members, span, hty, hin, hnm, TyReach.refl h⟩
      · cases hr
    all_goals first | (cases hr) | (unfold todo at hr; cases hr)

/-! ### The benign modules -/

def nonBuiltin (ms : List Member) : List Member := ms.filter fun mem => !isBuiltinMember mem

/-- a struct type whose (non-builtin) members end in a runtime-sized array -/
def isRtsStruct (m : Module) (h : Nat) : Bool :=
  match m.types[h]? with
  | some ty =>
    match ty.inner with
    | .struct ms _ => structHasRtsArrayMember m (nonBuiltin ms)
    | _ => false
  | none => false

/-- scalar, vector, matrix or atomic -/
def isPlainLeaf (m : Module) (h : Nat) : Bool :=
  match m.types[h]? with
  | some ty =>
    match ty.inner with
    | .scalar _ => true
    | .vector _ _ => true
    | .matrix _ _ _ => true
    | .atomic _ => true
    | _ => false
  | none => false

/-- the type of a member (the element type, for a runtime-sized array member) implements `tr` on its leaves -/
def memberImpl (m : Module) (tr : String) (mem : Member) : Bool :=
  match m.types[mem.ty]? with
  | some ty =>
    match ty.inner with
    | .array base .dynamic _ =>
      (match m.types[base]? with | some bt => tyImpl m tr (typeFuel m) bt | none => false)
    | _ => tyImpl m tr (typeFuel m) ty
  | none => false

/-- The modules / option sets for which the derives are claimed satisfiable.  Every clause is decidable
(`deriveBenignB`) and evaluated on each dumped module; the excluded modules are the recorded C01 classes. -/
structure DeriveBenign (m : Module) (o : Options) : Prop where
  arena : TypeArenaOk m
  /-- no `bool` under Pod / ShaderType, no `f64` (or 8/16-bit scalar) under ShaderType, no array longer
  than 32 under serde, no zero-length array under ShaderType – per emitted struct and derive -/
  leaves : ∀ hd ty ms sp, m.types[hd]? = some ty → ty.inner = .struct ms sp →
    structWanted m (globalVariableTypes m) hd = true → ∀ mem ∈ nonBuiltin ms,
    ∀ tr ∈ deriveList o (structHasRtsArrayMember m (nonBuiltin ms)) ((globalVariableTypes m).contains hd),
      memberImpl m tr mem = true
  /-- WGSL: the members of a struct used only as entry-point parameter are scalars or vectors -/
  plain : ∀ hd ty ms sp, m.types[hd]? = some ty → ty.inner = .struct ms sp →
    structWanted m (globalVariableTypes m) hd = true → (globalVariableTypes m).contains hd = false →
    ∀ mem ∈ nonBuiltin ms, isPlainLeaf m mem.ty = true
  /-- WGSL: a struct ending in a runtime-sized array is never a member or an array element -/
  rtsTop : ∀ h s, s ∈ typeSucc m h → isRtsStruct m s = false
  /-- a host-shareable struct under the encase switch has at least one member that is not a builtin (a struct of builtins only
  reachable from a variable is emitted as `pub struct S {}`, which encase's derive refuses: recorded finding) -/
  nonEmpty : ∀ hd ty ms sp, m.types[hd]? = some ty → ty.inner = .struct ms sp →
    structWanted m (globalVariableTypes m) hd = true → (globalVariableTypes m).contains hd = true → o.encase = true →
    nonBuiltin ms ≠ []

/-! ### Facts about the derive list (all 2^6 combinations, by kernel evaluation) -/

theorem deriveListB_rts : ∀ bv bh en se hs : Bool, ¬ (bv = true ∧ hs = false) → ¬ (bh = true ∧ hs = true) →
    ∀ d ∈ deriveListB bv bh en se true hs, (d == "Copy" || d == "bytemuck::Pod" || d == "bytemuck::Zeroable") = false := by
  decide

theorem deriveListB_unrts : ∀ bv bh en se rts hs : Bool,
    ∀ d ∈ deriveListB bv bh en se rts hs, d ∈ deriveListB bv bh en se false hs := by
  decide

theorem deriveListB_shape : ∀ bv bh en se rts hs : Bool,
    ¬ (bv = true ∧ hs = false ∧ rts = true) → ¬ (bh = true ∧ hs = true ∧ rts = true) →
    let l := deriveListB bv bh en se rts hs
    (l.contains "Copy" && !l.contains "Clone") = false ∧
    (l.contains "bytemuck::Pod" && !(!rts)) = false ∧
    (l.contains "bytemuck::Pod" && !l.contains "Copy") = false ∧
    (l.contains "bytemuck::Pod" && !l.contains "bytemuck::Zeroable") = false := by
  decide

theorem deriveListB_encase : ∀ bv bh se rts : Bool,
    (deriveListB bv bh true se rts true).contains "encase::ShaderType" = true := by
  decide

/-! ### Plumbing -/

theorem implementsWith_of_leaf (named : String → Bool) (tr : String) :
    ∀ r, leafImpl tr r = true → (∀ n ∈ namedIn r, named n = true) → implementsWith named tr r = true := by
  intro r
  induction r with
  | prim s => intro h _; exact h
  | array t n ih =>
    intro h hn
    simp only [leafImpl, implementsWith] at h ⊢
    simp only [namedIn] at hn
    split
    · rename_i c; rw [if_pos c] at h
      simp only [Bool.and_eq_true] at h ⊢
      exact ⟨h.1, ih h.2 hn⟩
    · rename_i c; rw [if_neg c] at h
      split
      · rename_i c2; rw [if_pos c2] at h
        simp only [Bool.and_eq_true] at h ⊢
        exact ⟨h.1, ih h.2 hn⟩
      · rename_i c2; rw [if_neg c2] at h
        exact ih h hn
  | glam s => intro h _; exact h
  | nalgebraV t n _ => intro _ _; rfl
  | nalgebraM t r c _ => intro _ _; rfl
  | named n => intro _ hn; exact hn n (by simp [namedIn])
  | vec t ih =>
    intro h hn
    simp only [leafImpl, implementsWith] at h ⊢
    simp only [namedIn] at hn
    split
    · rename_i c; rw [if_pos c] at h; cases h
    · rename_i c; rw [if_neg c] at h; exact ih h hn
  | option t ih =>
    intro h hn
    simp only [leafImpl, implementsWith] at h ⊢
    simp only [namedIn] at hn
    exact ih h hn
  | unknown s => intro h _; cases h

theorem filterMapM_ok_all {α β ε : Type} {f : α → Except ε (Option β)} :
    ∀ {l : List α} {r : List β}, l.filterMapM f = .ok r →
      ∀ a ∈ l, ∃ ob, f a = .ok ob ∧ ∀ b, ob = some b → b ∈ r := by
  intro l
  induction l with
  | nil => intro r _ a ha; cases ha
  | cons x l ih =>
    intro r h a ha
    obtain ⟨ob, bs, hx, hl, e⟩ := filterMapM_ok_cons h
    subst e
    rcases List.mem_cons.mp ha with rfl | ha
    · refine ⟨ob, hx, fun b hb => ?_⟩
      subst hb
      simp
    · obtain ⟨ob', h1, h2⟩ := ih hl a ha
      exact ⟨ob', h1, fun b hb => List.mem_append_right _ (h2 b hb)⟩

/-- with pairwise different names, looking a struct up by its name finds it -/
theorem findStruct_of_mem : ∀ (structs : List RStruct), (structs.map (·.name)).Nodup →
    ∀ s ∈ structs, findStruct structs s.name = some s := by
  intro structs
  induction structs with
  | nil => intro _ s hs; cases hs
  | cons x xs ih =>
    intro hnd s hs
    rw [List.map_cons, List.nodup_cons] at hnd
    unfold findStruct
    rw [List.find?_cons]
    rcases List.mem_cons.mp hs with rfl | hs
    · simp
    · have hne : (x.name == s.name) = false := by
        apply beq_false_of_ne
        intro e
        exact hnd.1 (e ▸ List.mem_map_of_mem hs)
      rw [hne]
      exact ih hnd.2 s hs

theorem tyReach_last {m : Module} {a b c : Nat} (hs : b ∈ typeSucc m a) (hr : TyReach m b c) :
    ∃ p, c ∈ typeSucc m p := by
  induction hr generalizing a with
  | refl => exact ⟨a, hs⟩
  | step hs' _ ih => exact ih hs'

/-! ### Nested struct types are emitted with a derive list that covers the outer one -/

theorem mem_nonBuiltin {ms : List Member} {mem : Member} (h : mem ∈ nonBuiltin ms) : mem ∈ ms :=
  (List.mem_filter.mp h).1

theorem isDynArray_of {m : Module} {h base stride : Nat} {ty : Ty} (ht : m.types[h]? = some ty)
    (hi : ty.inner = .array base .dynamic stride) : isDynArray m h = true := by
  simp [isDynArray, ht, hi]

/-- a struct type reachable from a member of an emitted struct is emitted itself, and derives whatever
the outer struct derives -/
theorem named_ok {m : Module} {o : Options} {src : String} {path : Option String} {out : Out}
    (hb : DeriveBenign m o) (hg : gen m o src path = .ok out)
    {hd : Nat} {ty : Ty} {ms : List Member} {sp : Nat}
    (hty : m.types[hd]? = some ty) (hi : ty.inner = .struct ms sp)
    (hw : structWanted m (globalVariableTypes m) hd = true)
    {mem : Member} (hmem : mem ∈ nonBuiltin ms)
    {h' : Nat} {ty' : Ty} {ms' : List Member} {sp' : Nat} {n : String}
    (hr : TyReach m mem.ty h') (hty' : m.types[h']? = some ty') (hi' : ty'.inner = .struct ms' sp')
    (hn : ty'.name = some n) {rts : Bool} {d : String}
    (hdl : d ∈ deriveList o rts ((globalVariableTypes m).contains hd)) :
    structDerives out.structs d n = true := by
  have hp := gen_ok hg
  have hsucc : mem.ty ∈ typeSucc m hd := by
    unfold typeSucc
    simp only [hty, hi]
    exact List.mem_map_of_mem (mem_nonBuiltin hmem)
  cases hhs : (globalVariableTypes m).contains hd with
  | false =>
    -- entry-parameter-only struct: its members are plain leaves, none of them is or contains a struct
    exfalso
    have hpl := hb.plain hd ty ms sp hty hi hw hhs mem hmem
    unfold isPlainLeaf at hpl
    rcases tyReach_cases hr with rfl | ⟨b, hbs, _⟩
    · rw [hty'] at hpl; simp [hi'] at hpl
    · unfold typeSucc at hbs
      cases hmt : m.types[mem.ty]? with
      | none => rw [hmt] at hbs; cases hbs
      | some mt =>
        rw [hmt] at hbs hpl
        dsimp only at hbs hpl
        split at hpl <;> simp_all
  | true =>
    rw [hhs] at hdl
    have hgv : hd ∈ globalVariableTypes m := List.contains_iff_mem.mp hhs
    obtain ⟨g, hgm, hgr⟩ := (globalVariableTypes_mem m hb.arena.earlier hb.arena.globalsInRange hd).mp hgv
    have hreach : TyReach m g.ty h' := TyReach.trans hgr (TyReach.step hsucc hr)
    have hgv' : h' ∈ globalVariableTypes m :=
      (globalVariableTypes_mem m hb.arena.earlier hb.arena.globalsInRange h').mpr ⟨g, hgm, hreach⟩
    have hc' : (globalVariableTypes m).contains h' = true := List.contains_iff_mem.mpr hgv'
    have hw' : structWanted m (globalVariableTypes m) h' = true := by
      unfold structWanted; rw [hc']; simp
    -- the struct for h' is emitted
    have hs := hp.structs
    rw [structs_def] at hs
    have hin : (h', ty') ∈ (indexed m.types).filter fun ht => structWanted m (globalVariableTypes m) ht.1 :=
      List.mem_filter.mpr ⟨mem_indexed.mpr hty', hw'⟩
    obtain ⟨ob, hob, hobm⟩ := filterMapM_ok_all hs (h', ty') hin
    unfold structOf at hob
    simp only [hi'] at hob
    obtain ⟨s', hs', hob⟩ := Except.bind_ok hob
    cases hob
    have hs'mem : s' ∈ out.structs := hobm s' rfl
    obtain ⟨name, fields, offs, hname, _, _, _, _, _, e⟩ := rustStruct_ok hs'
    have hname' : s'.name = n := by
      rw [e]; dsimp only; rw [hn] at hname; injection hname with hname; exact hname.symm
    have hfind := findStruct_of_mem out.structs (C08_nodup hb.arena hg) s' hs'mem
    rw [hname'] at hfind
    unfold structDerives
    rw [hfind]
    -- its derive list: same switches, host-shareable, no runtime-sized array
    obtain ⟨p, hp'⟩ := tyReach_last hsucc hr
    have hnr := hb.rtsTop p h' hp'
    unfold isRtsStruct at hnr
    simp only [hty', hi'] at hnr
    have hder : s'.derives = deriveList o false true := by
      rw [e]; dsimp only
      unfold nonBuiltin at hnr
      rw [hnr, hc']
    dsimp only
    rw [hder]
    apply List.contains_iff_mem.mpr
    exact deriveListB_unrts _ _ _ _ _ _ d hdl

/-! ### The theorem -/

theorem filterMap_nil_of {α β : Type} {f : α → Option β} {l : List α} (h : ∀ a ∈ l, f a = none) :
    l.filterMap f = [] := List.filterMap_eq_nil_iff.mpr h

/-- **C01** (derives): in a successfully generated module, for every benign module and option set,
`Ext.RustStatic` finds no derive issue: every derive on every struct is satisfiable by every field type,
`Pod` comes with `repr(C)`, `Copy`, `Zeroable`, a runtime-sized field is last and carries encase's derive. -/
theorem C01_derives_satisfiable {m : Module} {o : Options} {src : String} {path : Option String} {out : Out}
    (hb : DeriveBenign m o) (hg : gen m o src path = .ok out) : deriveIssues out = [] := by
  have hp := gen_ok hg
  unfold deriveIssues
  apply List.flatMap_eq_nil_iff.mpr
  intro s hs
  obtain ⟨hd, ty, ms, sp, hin, hw, hi, hr⟩ := structs_mem hp.structs hs
  have hty := mem_indexed.mp hin
  obtain ⟨name, fields, offs, hname, hf, _, hx1, hx2, hx3, e⟩ := rustStruct_ok hr
  unfold structMembers at hf
  obtain ⟨hfrom, hlast⟩ := structMembersFrom_from _ 0 fields (by simp) hf
  have hfieldsE : s.fields = fields := by rw [e]
  have hderE : s.derives = deriveList o (structHasRtsArrayMember m (nonBuiltin ms)) ((globalVariableTypes m).contains hd) := by
    rw [e]; rfl
  have hreprE : s.reprC = !(structHasRtsArrayMember m (nonBuiltin ms)) := by rw [e]; rfl
  -- a runtime-sized field makes the struct a host-shareable runtime-array struct under encase
  have hrtf : ∀ f ∈ fields, f.runtime = true →
      structHasRtsArrayMember m (nonBuiltin ms) = true ∧ (globalVariableTypes m).contains hd = true ∧ o.encase = true := by
    intro f hfm hrt
    obtain ⟨mem, hmem, tym, htym, _, hcase⟩ := hfrom f hfm
    rcases hcase with ⟨base, stride, bt, el, hia, _, _, _, _⟩ | ⟨_, _, hnr⟩
    · have hdyn : structHasRtsArrayMember m (nonBuiltin ms) = true := by
        unfold structHasRtsArrayMember
        exact List.any_eq_true.mpr ⟨mem, hmem, isDynArray_of htym hia⟩
      have hhs : (globalVariableTypes m).contains hd = true := by
        cases hc : (globalVariableTypes m).contains hd with
        | true => rfl
        | false =>
          exfalso
          have hpl := hb.plain hd ty ms sp hty hi hw hc mem hmem
          unfold isPlainLeaf at hpl
          simp [htym, hia] at hpl
      refine ⟨hdyn, hhs, ?_⟩
      cases he : o.encase with
      | true => rfl
      | false => exact (hx1 ⟨hdyn, he⟩).elim
    · rw [hnr] at hrt; cases hrt
  have hshape := deriveListB_shape o.bmVertex o.bmHost o.encase o.serde
    (structHasRtsArrayMember m (nonBuiltin ms)) ((globalVariableTypes m).contains hd)
    (fun ⟨a, b, c⟩ => hx2 ⟨a, b, c⟩) (fun ⟨a, b, c⟩ => hx3 ⟨a, b, c⟩)
  obtain ⟨sh1, sh2, sh3, sh4⟩ := hshape
  simp only [List.append_eq_nil_iff]
  refine ⟨⟨⟨⟨⟨⟨⟨?_, ?_⟩, ?_⟩, ?_⟩, ?_⟩, ?_⟩, ?_⟩, ?_⟩
  rotate_left 1
  · -- encase's derive on a struct without fields
    cases hsh : s.derives.contains "encase::ShaderType" with
    | false => rfl
    | true =>
      rw [hderE] at hsh
      unfold deriveList deriveListB at hsh
      have hen : o.encase = true ∧ (globalVariableTypes m).contains hd = true := by
        cases he : o.encase <;> cases hh : (globalVariableTypes m).contains hd <;>
          cases o.bmVertex <;> cases o.bmHost <;> cases o.serde <;>
          cases structHasRtsArrayMember m (nonBuiltin ms) <;> simp_all
      have hne := hb.nonEmpty hd ty ms sp hty hi hw hen.2 hen.1
      have hlen : fields.length = (nonBuiltin ms).length := by
        have := congrArg List.length (structMembersFrom_names _ 0 fields hf)
        unfold nonBuiltin
        simpa using this
      have : s.fields.isEmpty = false := by
        rw [hfieldsE]
        cases hfl : fields with
        | nil =>
          rw [hfl] at hlen
          exact (hne (List.eq_nil_of_length_eq_zero hlen.symm)).elim
        | cons a l => rfl
      rw [this]; rfl
  rotate_right 1
  · -- every derive is satisfiable by every field type
    apply List.flatMap_eq_nil_iff.mpr
    intro d hdm
    apply filterMap_nil_of
    intro f hfm
    rw [hfieldsE] at hfm
    rw [hderE] at hdm
    have himp : implements out.structs d f.ty = true := by
      obtain ⟨mem, hmem, tym, htym, _, hcase⟩ := hfrom f hfm
      have hlv := hb.leaves hd ty ms sp hty hi hw mem hmem d hdm
      unfold memberImpl at hlv
      rw [htym] at hlv
      dsimp only at hlv
      unfold implements
      rcases hcase with ⟨base, stride, bt, el, hia, hbt, hel, hfty, hrt⟩ | ⟨hnd, hrt, _⟩
      · -- runtime-sized array member: `Vec<element>`
        simp only [hia, hbt] at hlv
        rw [hfty]
        obtain ⟨hrts, hhs, _⟩ := hrtf f hfm hrt
        rw [hrts, hhs] at hdm
        have hnot := deriveListB_rts o.bmVertex o.bmHost o.encase o.serde true
          (fun ⟨_, b⟩ => by cases b) (fun ⟨a, _⟩ => hx3 ⟨a, hhs, hrts⟩) d hdm
        apply implementsWith_of_leaf
        · simp only [leafImpl, implementsWith, hnot]
          exact rustType_leaf m o.repr d _ bt el hel hlv
        · intro n hn
          simp only [namedIn] at hn
          obtain ⟨h', ty', ms', sp', a, b, c, dd⟩ := rustType_named m o.repr _ base bt el hbt hel n hn
          have hstep : TyReach m mem.ty h' := TyReach.step (by unfold typeSucc; simp [htym, hia]) dd
          have hdm' : d ∈ deriveList o true ((globalVariableTypes m).contains hd) := by rw [hhs]; exact hdm
          exact named_ok hb hg hty hi hw hmem hstep a b c hdm'
      · have hlv' : tyImpl m d (typeFuel m) tym = true := by
          split at hlv
          · rename_i b st hc; exact (hnd b st hc).elim
          · exact hlv
        apply implementsWith_of_leaf
        · exact rustType_leaf m o.repr d _ tym f.ty hrt hlv'
        · intro n hn
          obtain ⟨h', ty', ms', sp', a, b, c, dd⟩ := rustType_named m o.repr _ mem.ty tym f.ty htym hrt n hn
          exact named_ok hb hg hty hi hw hmem dd a b c hdm
    rw [himp]; rfl
  · rw [hderE]; unfold deriveList; rw [sh1]; rfl
  · rw [hderE, hreprE]; unfold deriveList; rw [sh2]; rfl
  · rw [hderE]; unfold deriveList; rw [sh3]; rfl
  · rw [hderE]; unfold deriveList; rw [sh4]; rfl
  · apply filterMap_nil_of
    intro f hfm
    rw [hfieldsE] at hfm
    rw [hlast f hfm]; rfl
  · apply filterMap_nil_of
    intro f hfm
    rw [hfieldsE] at hfm
    cases hrt : f.runtime with
    | false => rfl
    | true =>
      obtain ⟨hrts, hhs, hen⟩ := hrtf f hfm hrt
      have := deriveListB_encase o.bmVertex o.bmHost o.serde (structHasRtsArrayMember m (nonBuiltin ms))
      rw [hderE]; unfold deriveList; rw [hhs, hen, this]; rfl

/-! ### `DeriveBenign` is decidable: the executable form evaluated on every dumped module -/

def deriveBenignB (m : Module) (o : Options) : Bool :=
  typeArenaOkB m &&
  (indexed m.types).all (fun ht =>
    match ht.2.inner with
    | .struct ms _ =>
      !structWanted m (globalVariableTypes m) ht.1 ||
        ((nonBuiltin ms).all (fun mem =>
          (deriveList o (structHasRtsArrayMember m (nonBuiltin ms)) ((globalVariableTypes m).contains ht.1)).all
            fun tr => memberImpl m tr mem) &&
         ((globalVariableTypes m).contains ht.1 || (nonBuiltin ms).all fun mem => isPlainLeaf m mem.ty) &&
         (!((globalVariableTypes m).contains ht.1 && o.encase) || !(nonBuiltin ms).isEmpty))
    | _ => true) &&
  (List.range m.types.length).all (fun h => (typeSucc m h).all fun s => !isRtsStruct m s)

theorem deriveBenignB_sound (m : Module) (o : Options) (h : deriveBenignB m o = true) : DeriveBenign m o := by
  unfold deriveBenignB at h
  simp only [Bool.and_eq_true] at h
  obtain ⟨⟨ha, hs⟩, hr⟩ := h
  rw [List.all_eq_true] at hs hr
  have key : ∀ hd ty ms sp, m.types[hd]? = some ty → ty.inner = .struct ms sp →
      structWanted m (globalVariableTypes m) hd = true →
      ((nonBuiltin ms).all (fun mem =>
          (deriveList o (structHasRtsArrayMember m (nonBuiltin ms)) ((globalVariableTypes m).contains hd)).all
            fun tr => memberImpl m tr mem) &&
         ((globalVariableTypes m).contains hd || (nonBuiltin ms).all fun mem => isPlainLeaf m mem.ty) &&
         (!((globalVariableTypes m).contains hd && o.encase) || !(nonBuiltin ms).isEmpty)) = true := by
    intro hd ty ms sp hty hi hw
    have := hs (hd, ty) (mem_indexed.mpr hty)
    simp only [hi, hw, Bool.not_true, Bool.false_or] at this
    exact this
  refine ⟨typeArenaOkB_sound m ha, ?_, ?_, ?_, ?_⟩
  · intro hd ty ms sp hty hi hw mem hmem tr htr
    have := key hd ty ms sp hty hi hw
    simp only [Bool.and_eq_true, List.all_eq_true] at this
    exact this.1.1 mem hmem tr htr
  · intro hd ty ms sp hty hi hw hc mem hmem
    have := key hd ty ms sp hty hi hw
    simp only [Bool.and_eq_true, List.all_eq_true, hc, Bool.false_or] at this
    exact this.1.2 mem hmem
  · intro hh s hsm
    by_cases hlt : hh < m.types.length
    · have := hr hh (List.mem_range.mpr hlt)
      rw [List.all_eq_true] at this
      simpa using this s hsm
    · have : m.types[hh]? = none := List.getElem?_eq_none (by omega)
      simp [typeSucc, this] at hsm
  · intro hd ty ms sp hty hi hw hc he hnil
    have := key hd ty ms sp hty hi hw
    simp only [Bool.and_eq_true, hc, he, hnil] at this
    simp at this

/-- **C01** (derives), executable hypothesis: the form the driver checks per module. -/
theorem C01_derives_satisfiable' {m : Module} {o : Options} {src : String} {path : Option String} {out : Out}
    (hb : deriveBenignB m o = true) (hg : gen m o src path = .ok out) : deriveIssues out = [] :=
  C01_derives_satisfiable (deriveBenignB_sound m o hb) hg

/-! ### Non-vacuity, and the recorded classes as counterexamples -/

namespace C01DeriveExample

def ty (name : Option String) (inner : TypeInner) : Ty :=
  { name := name, inner := inner, size := 0, laySize := 0, layAlign := 0, snake := "" }

/-- ```wgsl
struct Inner { x: f32, n: vec3<u32> }
struct Outer { pos: vec3<f32>, inner: Inner, arr: array<Inner, 3>, flag: <last member type> }
@group(0) @binding(0) var<uniform> u: Outer;
``` -/
def modl (last : TypeInner) : Module :=
  { types :=
      [ ty none (.scalar ⟨.float, 4⟩),                                                        -- 0
        ty none (.vector .tri ⟨.float, 4⟩),                                                   -- 1
        ty none (.vector .tri ⟨.uint, 4⟩),                                                    -- 2
        ty (some "Inner") (.struct [⟨some "x", 0, none, 0⟩, ⟨some "n", 2, none, 16⟩] 32),     -- 3
        ty none (.array 3 (.const 3) 32),                                                     -- 4
        ty none last,                                                                         -- 5
        ty (some "Outer") (.struct [⟨some "pos", 1, none, 0⟩, ⟨some "inner", 3, none, 16⟩,
                                    ⟨some "arr", 4, none, 48⟩, ⟨some "flag", 5, none, 144⟩] 160) ], -- 6
    globals := [⟨some "u", .uniform, some (0, 0), 6⟩],
    consts := [], overrides := [], functions := [], entries := [] }

def allOn (repr : Repr3) : Options :=
  { bmVertex := true, bmHost := true, encase := true, serde := true, repr := repr, rustfmt := false, validate := false }

/-- classes of the derive issues `Ext.RustStatic` reports on the structs the model emits -/
def issuesOf (last : TypeInner) (o : Options) : Option (List String) :=
  match structs (modl last) o with
  | .ok ss => some ((deriveIssues { (default : Out) with structs := ss }).map (·.cls))
  | .error _ => none

/-- the hypotheses hold for a module with a nested struct, an array of structs and all derive switches on,
in all three representations, and generation succeeds on it -/
example : deriveBenignB (modl (.scalar ⟨.sint, 4⟩)) (allOn .rust) = true := by decide
example : deriveBenignB (modl (.scalar ⟨.sint, 4⟩)) (allOn .glam) = true := by decide
example : deriveBenignB (modl (.scalar ⟨.sint, 4⟩)) (allOn .nalgebra) = true := by decide
example : issuesOf (.scalar ⟨.sint, 4⟩) (allOn .glam) = some [] := by decide

/-- the recorded classes are excluded by the hypothesis, and `Ext.RustStatic` reports them on the model's output:
`bool` under Pod / ShaderType, `f64` under ShaderType, an array longer than 32 under serde -/
example : deriveBenignB (modl (.scalar ⟨.bool, 1⟩)) (allOn .rust) = false := by decide
example : issuesOf (.scalar ⟨.bool, 1⟩) (allOn .rust) = some ["derive-unsat", "derive-unsat"] := by decide
example : deriveBenignB (modl (.vector .bi ⟨.float, 8⟩)) (allOn .glam) = false := by decide
example : issuesOf (.vector .bi ⟨.float, 8⟩) (allOn .glam) = some ["derive-unsat"] := by decide
example : deriveBenignB (modl (.array 0 (.const 33) 4)) (allOn .rust) = false := by decide
example : issuesOf (.array 0 (.const 33) 4) (allOn .rust) = some ["derive-unsat", "derive-unsat"] := by decide
/-- with the offending switch off, the same modules are benign again -/
example : deriveBenignB (modl (.scalar ⟨.bool, 1⟩))
    { allOn .rust with bmHost := false, encase := false } = true := by decide
example : deriveBenignB (modl (.array 0 (.const 33) 4)) { allOn .rust with serde := false } = true := by decide

end C01DeriveExample

end WgslVerif
