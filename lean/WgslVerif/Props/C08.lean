import WgslVerif.Lemmas.Gen
import WgslVerif.Lemmas.TypeClosure
/-
C08 – Exactly the host-visible structs are emitted, once each.
-/
namespace WgslVerif

def IsEntryArg (m : Module) (h : Nat) : Prop := ∃ e ∈ m.entries, ∃ a ∈ e.fn.args, a.1 = h
def IsEntryResult (m : Module) (h : Nat) : Prop := ∃ e ∈ m.entries, ∃ r, e.fn.result = some r ∧ r.1 = h

/-- a host program has to fill this type: reachable from the type of a module-scope variable,
or taken as an entry-point parameter without being an entry-point return type -/
def HostVisible (m : Module) (h : Nat) : Prop :=
  (∃ g ∈ m.globals, TyReach m g.ty h) ∨ (IsEntryArg m h ∧ ¬ IsEntryResult m h)

/-- standing facts about naga's type arena used by C08 (checked on every dumped module) -/
structure TypeArenaOk (m : Module) : Prop where
  earlier : TypesEarlier m
  globalsInRange : ∀ g ∈ m.globals, g.ty < m.types.length
  /-- WGSL: struct declarations of one module have pairwise different names -/
  structNamesDistinct : ((indexed m.types).filterMap structNameOf).Nodup

theorem structWanted_iff (m : Module) (ha : TypeArenaOk m) (h : Nat) :
    structWanted m (globalVariableTypes m) h = true ↔ HostVisible m h := by
  unfold structWanted HostVisible IsEntryArg IsEntryResult
  simp only [Bool.or_eq_true, Bool.and_eq_true, Bool.not_eq_true', List.any_eq_true, beq_iff_eq,
    List.contains_iff_mem]
  rw [globalVariableTypes_mem m ha.earlier ha.globalsInRange h]
  constructor
  · rintro (⟨hr, e, he, a, ha', hah⟩ | hg)
    · right
      refine ⟨⟨e, he, a, ha', hah⟩, ?_⟩
      rintro ⟨e', he', r, hr', hrh⟩
      have : (m.entries.any fun e => Option.map (fun x => x.fst) e.fn.result == some h) = true := by
        simp only [List.any_eq_true, beq_iff_eq]
        exact ⟨e', he', by rw [hr']; simp [hrh]⟩
      rw [this] at hr; cases hr
    · exact Or.inl hg
  · rintro (hg | ⟨⟨e, he, a, ha', hah⟩, hnr⟩)
    · exact Or.inr hg
    · left
      refine ⟨?_, e, he, a, ha', hah⟩
      cases hany : (m.entries.any fun e => Option.map (fun x => x.fst) e.fn.result == some h) with
      | false => rfl
      | true =>
        simp only [List.any_eq_true, beq_iff_eq] at hany
        obtain ⟨e', he', hr⟩ := hany
        exfalso; apply hnr
        cases hres : e'.fn.result with
        | none => rw [hres] at hr; cases hr
        | some r =>
          rw [hres] at hr
          simp at hr
          exact ⟨e', he', r, hres, hr⟩

/-- **C08**: the emitted struct names are, in arena order, exactly the names of the struct types
that are host-visible – nothing else is emitted, nothing host-visible is missing. -/
theorem C08 {m : Module} {o : Options} {src : String} {path : Option String} {out : Out}
    (hg : gen m o src path = .ok out) :
    out.structs.map (·.name) =
      ((indexed m.types).filter fun ht => structWanted m (globalVariableTypes m) ht.1).filterMap structNameOf := by
  have hp := gen_ok hg
  have hs := hp.structs
  rw [structs_def] at hs
  exact filterMapM_ok_map hs (fun a _ ob hob => structOf_name hob)

/-- **C08** (membership form): a struct named `n` is emitted iff some host-visible struct type
is named `n`. -/
theorem C08_mem {m : Module} {o : Options} {src : String} {path : Option String} {out : Out}
    (ha : TypeArenaOk m) (hg : gen m o src path = .ok out) (n : String) :
    n ∈ out.structs.map (·.name) ↔
      ∃ h ty members span, m.types[h]? = some ty ∧ ty.inner = .struct members span ∧
        ty.name = some n ∧ HostVisible m h := by
  rw [C08 hg, List.mem_filterMap]
  constructor
  · rintro ⟨⟨h, ty⟩, hmem, hn⟩
    obtain ⟨hin, hw⟩ := List.mem_filter.mp hmem
    unfold structNameOf at hn
    split at hn
    · rename_i members span hi
      exact ⟨h, ty, members, span, mem_indexed.mp hin, hi, hn, (structWanted_iff m ha h).mp hw⟩
    · cases hn
  · rintro ⟨h, ty, members, span, hty, hi, hn, hv⟩
    refine ⟨(h, ty), List.mem_filter.mpr ⟨mem_indexed.mpr hty, (structWanted_iff m ha h).mpr hv⟩, ?_⟩
    unfold structNameOf
    simp only [hi]; exact hn

/-- **C08** (once each): no struct is emitted twice. -/
theorem C08_nodup {m : Module} {o : Options} {src : String} {path : Option String} {out : Out}
    (ha : TypeArenaOk m) (hg : gen m o src path = .ok out) :
    (out.structs.map (·.name)).Nodup := by
  rw [C08 hg]
  have hsub : List.Sublist
      (((indexed m.types).filter fun ht => structWanted m (globalVariableTypes m) ht.1).filterMap structNameOf)
      ((indexed m.types).filterMap structNameOf) :=
    List.Sublist.filterMap _ List.filter_sublist
  exact hsub.nodup ha.structNamesDistinct

/-- executable form of `TypeArenaOk` (evaluated on every module the harness dumps) -/
def typeArenaOkB (m : Module) : Bool :=
  (List.range m.types.length).all (fun t => (typeSucc m t).all (· < t)) &&
  m.globals.all (fun g => g.ty < m.types.length) &&
  decide ((indexed m.types).filterMap structNameOf).Nodup

theorem typeArenaOkB_sound (m : Module) (h : typeArenaOkB m = true) : TypeArenaOk m := by
  simp only [typeArenaOkB, Bool.and_eq_true, List.all_eq_true, List.mem_range, decide_eq_true_eq] at h
  refine ⟨fun t s hs => ?_, fun g hg => h.1.2 g hg, h.2⟩
  by_cases ht : t < m.types.length
  · exact h.1.1 t ht s hs
  · have : m.types[t]? = none := List.getElem?_eq_none (by omega)
    simp [typeSucc, this] at hs

end WgslVerif
