import WgslVerif.Lemmas.Gen
import WgslVerif.Props.C04
import WgslVerif.Props.C03
import WgslVerif.Ext.WgpuBinding
/-
C02 – Bind group layouts pass wgpu's shader-interface validation
(relative to `Ext.WgpuBinding`, the transcription of wgpu-core 24.0.5).
-/
namespace WgslVerif
open WgpuBinding

/-- the layout entry generated for variable `v` is one wgpu accepts for `v` -/
def EntryOk (m : Module) (v : GroupBinding) (e : REntry) : Prop :=
  e.binding = v.binding ∧
  match m.types[v.ty]? with
  | some ty => checkBindingUse v.space ty.inner e.ty = none ∧ bglEntryOk e.ty = none
  | none => False

instance (m : Module) (v : GroupBinding) (e : REntry) : Decidable (EntryOk m v e) := by
  unfold EntryOk
  cases m.types[v.ty]? <;> simp only <;> infer_instance

/-- every variable of every group has, at its own index, an entry wgpu's `check_binding_use` and
`create_bind_group_layout` accept (visibility is C03) -/
def C02Ok (m : Module) (out : Out) : Prop :=
  ∀ g ∈ out.groups, g.entries.length = (varsOf m g.no).length ∧
    ∀ ve ∈ (varsOf m g.no).zip g.entries, EntryOk m ve.1 ve.2

instance (m : Module) (out : Out) : Decidable (C02Ok m out) := by unfold C02Ok; infer_instance

/-- facts about resource variables that naga's WGSL front end and validator guarantee
(`valid/type.rs`, `valid/interface.rs`, WGSL grammar); evaluated on every dumped module -/
def shapeOk (inner : TypeInner) (space : Space) : Bool :=
  match inner with
  | .image dim arrayed cls =>
    space == .handle &&
    (match arrayed, dim with
      | true, .d2 => true | true, .cube => true | true, _ => false | false, _ => true) &&
    (match cls with
      | .sampled k multi => (k == .float || k == .sint || k == .uint) && (!multi || (dim == .d2 && !arrayed))
      | .depth multi => !multi || (dim == .d2 && !arrayed)
      | .storage _ a => dim != .cube && (a.load || a.store) && (!a.atomic || (a.load && a.store)))
  | .sampler _ => space == .handle
  | .struct .. | .array .. | .scalar _ | .vector .. | .matrix .. =>
    (match space with
      | .uniform => true
      | .storage a => a.load && !a.atomic
      | _ => false)
  | _ => true   -- unsupported kinds make generation panic; they never reach an entry

def resourceShapeOk (m : Module) (v : GroupBinding) : Bool :=
  match m.types[v.ty]? with
  | none => false
  | some ty => shapeOk ty.inner v.space

def resourceShapesB (m : Module) : Bool := (boundGlobals m).all (resourceShapeOk m)

theorem viewDim_matches {dim : ImageDim} {arrayed : Bool} {vd : ViewDim}
    (h : viewDim dim arrayed = .ok vd) : viewDimMatches dim arrayed vd = true := by
  cases dim <;> cases arrayed <;> simp [viewDim] at h <;> subst h <;> rfl

theorem viewDim_d2 {vd : ViewDim} (h : viewDim .d2 false = .ok vd) : vd = .d2 := by
  simp [viewDim] at h; exact h.symm

theorem viewDim_not_cube {dim : ImageDim} {arrayed : Bool} {vd : ViewDim}
    (h : viewDim dim arrayed = .ok vd) (hd : dim ≠ .cube) : vd ≠ .cube ∧ vd ≠ .cubeArray := by
  cases dim <;> cases arrayed <;> simp [viewDim] at h <;> subst h <;> simp_all

/-- what the class arm of `bind_group_layout_entry` produces -/
theorem classArm_spec (dim : ImageDim) (arrayed : Bool) (cls : ImageClass) (vd : ViewDim) (bt : BindingTy)
    (hvd : viewDim dim arrayed = .ok vd)
    (hcls : (match cls with
      | .sampled k multi => (k == .float || k == .sint || k == .uint) && (!multi || (dim == .d2 && !arrayed))
      | .depth multi => !multi || (dim == .d2 && !arrayed)
      | .storage _ a => dim != .cube && (a.load || a.store) && (!a.atomic || (a.load && a.store))) = true)
    (h : (match cls with
      | .sampled k multi =>
        (match k with
        | .sint => pure (.texture .sint vd multi)
        | .uint => pure (.texture .uint vd multi)
        | .float => pure (.texture (.float true) vd multi)
        | _ => todo "sample-kind" : G BindingTy)
      | .depth multi => pure (.texture .depth vd multi)
      | .storage fmt access => do
        let acc ← storageAccess access
        pure (.storageTexture acc fmt vd)) = .ok bt)
    (hnm : cls ≠ .sampled .float true) :
    viewDimOf bt = some vd ∧ expectedClass bt = some cls ∧ bglEntryOk bt = none := by
  cases cls with
  | sampled k multi =>
    simp only at h hcls
    have hm : multi = true → vd = .d2 := by
      intro hmt; subst hmt
      simp only [Bool.not_true, Bool.false_or, Bool.and_eq_true, beq_iff_eq, Bool.not_eq_true'] at hcls
      obtain ⟨_, hd, ha⟩ := hcls
      subst hd; subst ha
      exact viewDim_d2 hvd
    cases k <;> simp only [todo, pure, Except.pure] at h <;> first
      | (cases h; done)
      | (injection h with h; subst h
         cases multi
         · simp [viewDimOf, expectedClass, bglEntryOk]
         · first
             | (exact absurd rfl hnm)
             | (have := hm rfl; subst this; simp [viewDimOf, expectedClass, bglEntryOk]))
  | depth multi =>
    simp only [pure, Except.pure] at h hcls
    injection h with h; subst h
    cases multi
    · simp [viewDimOf, expectedClass, bglEntryOk]
    · simp only [Bool.not_true, Bool.false_or, Bool.and_eq_true, beq_iff_eq, Bool.not_eq_true'] at hcls
      obtain ⟨hd, ha⟩ := hcls
      subst hd; subst ha
      have := viewDim_d2 hvd; subst this
      simp [viewDimOf, expectedClass, bglEntryOk]
  | storage fmt a =>
    simp only at h hcls
    obtain ⟨acc, hacc, h⟩ := Except.bind_ok h
    injection h with h; subst h
    simp only [Bool.and_eq_true, bne_iff_ne, ne_eq, Bool.or_eq_true, Bool.not_eq_true'] at hcls
    obtain ⟨⟨hd, hls⟩, hat⟩ := hcls
    obtain ⟨hc1, hc2⟩ := viewDim_not_cube hvd hd
    obtain ⟨l, st, at'⟩ := a
    unfold storageAccess at hacc
    cases l <;> cases st <;> cases at' <;> simp [todo] at hacc hat hls <;> subst hacc <;>
      (cases vd <;> simp_all [viewDimOf, expectedClass, bglEntryOk])

/-- the binding type the generator synthesises is accepted by wgpu for the variable it was
synthesised from – every texture dimension / arrayness / class / multisampling / storage format
and access, both samplers, uniform and storage buffers of either access -/
theorem bindingType_accepted (ty : Ty) (space : Space) (bt : BindingTy)
    (hs : shapeOk ty.inner space = true) (hnm : ∀ dim arrayed, ty.inner ≠ .image dim arrayed (.sampled .float true))
    (h : bindingType ty space = .ok bt) :
    checkBindingUse space ty.inner bt = none ∧ bglEntryOk bt = none := by
  unfold bindingType at h
  cases hi : ty.inner <;> rw [hi] at h hs <;> simp only at h
  case image dim arrayed cls =>
    obtain ⟨vd, hvd, h⟩ := Except.bind_ok h
    simp only [shapeOk, Bool.and_eq_true] at hs
    obtain ⟨⟨_, _⟩, hcls⟩ := hs
    obtain ⟨h1, h2, h3⟩ := classArm_spec dim arrayed cls vd bt hvd hcls h (fun e => hnm dim arrayed (by rw [hi, e]))
    refine ⟨?_, h3⟩
    simp [checkBindingUse, h1, h2, viewDim_matches hvd]
  case sampler cmp =>
    injection h with h; subst h
    cases cmp <;> simp [checkBindingUse, bglEntryOk]
  case struct ms sp =>
    injection h with h; subst h
    cases space <;> simp_all [shapeOk, checkBindingUse, bglEntryOk, bufferBindingType]
    rename_i a; obtain ⟨l, st, at'⟩ := a; simp_all
  case array b sz st' =>
    injection h with h; subst h
    cases space <;> simp_all [shapeOk, checkBindingUse, bglEntryOk, bufferBindingType]
    rename_i a; obtain ⟨l, st, at'⟩ := a; simp_all
  case scalar sc =>
    injection h with h; subst h
    cases space <;> simp_all [shapeOk, checkBindingUse, bglEntryOk, bufferBindingType]
    rename_i a; obtain ⟨l, st, at'⟩ := a; simp_all
  case vector n sc =>
    injection h with h; subst h
    cases space <;> simp_all [shapeOk, checkBindingUse, bglEntryOk, bufferBindingType]
    rename_i a; obtain ⟨l, st, at'⟩ := a; simp_all
  case matrix c r sc =>
    injection h with h; subst h
    cases space <;> simp_all [shapeOk, checkBindingUse, bglEntryOk, bufferBindingType]
    rename_i a; obtain ⟨l, st, at'⟩ := a; simp_all
  all_goals (cases h)

/-- no bound variable is a multisampled float texture (`texture_multisampled_2d<f32>`) -/
def noMultisampledFloat (m : Module) : Bool :=
  (boundGlobals m).all fun v =>
    match m.types[v.ty]? with
    | some ty => match ty.inner with
      | .image _ _ (.sampled .float true) => false
      | _ => true
    | none => true

/-- **C02 counterexample** (recorded finding): `texture_multisampled_2d<f32>` gets
`Float { filterable: true }` with `multisampled: true`, which `create_bind_group_layout` rejects
unconditionally. The repo's own snapshot test pins this output, so it is not repaired here. -/
theorem C02_counterexample :
    (bindingType { name := none, inner := .image .d2 false (.sampled .float true), size := 0, laySize := 0,
                   layAlign := 1, snake := "" } .handle).toOption.bind bglEntryOk
      = some .sampleTypeFloatFilterableBindingMultisampled := by decide

/-- **C02 (partial)**: for every module without a multisampled float texture, every layout entry
of a successful generation is accepted by wgpu's `check_binding_use` for the variable at its
`@group/@binding` and by the entry rules of `create_bind_group_layout` (visibility: C03). -/
theorem C02_partial {m : Module} {o : Options} {src : String} {path : Option String} {out : Out}
    (hshapes : resourceShapesB m = true) (hnmf : noMultisampledFloat m = true)
    (hg : gen m o src path = .ok out) : C02Ok m out := by
  have hp := gen_ok hg
  obtain ⟨data, hdata, hpg, hbg⟩ := hp.data
  have hcontent := C11_ok_content (boundGlobals m) data hdata
  unfold bindGroupsModule at hbg
  obtain ⟨groups, hgroups, hbg⟩ := Except.bind_ok hbg
  injection hbg with hbg
  have hgr : out.groups = groups := (Prod.mk.inj hbg).1.symm
  intro g hgm
  rw [hgr] at hgm
  obtain ⟨kb, hkb, hf⟩ := mapM_ok_mem hgroups g hgm
  obtain ⟨hl, _⟩ := hcontent.2.2 kb.1 kb.2 (by cases kb; exact hkb)
  unfold groupFacts at hf
  obtain ⟨lf, _, hf⟩ := Except.bind_ok hf
  obtain ⟨ents, hents, hf⟩ := Except.bind_ok hf
  obtain ⟨bes, _, hf⟩ := Except.bind_ok hf
  injection hf with hf; subst hf
  have hv : varsOf m kb.1 = kb.2 := by unfold varsOf; exact hl.symm
  simp only
  rw [hv]
  obtain ⟨hlen, hidx⟩ := mapM_ok_spec hents
  refine ⟨hlen, fun ve hve => ?_⟩
  obtain ⟨i, hi, e⟩ := List.getElem_of_mem hve
  simp only [List.getElem_zip] at e
  have hi1 : i < kb.2.length := by simp at hi; omega
  have hi2 : i < ents.length := by simp at hi; omega
  have hle := hidx i hi1 hi2
  rw [← e]
  simp only
  -- the variable belongs to the module's bound globals
  have hmemv : kb.2[i] ∈ boundGlobals m := by
    have : kb.2[i] ∈ (boundGlobals m).filter (·.group = kb.1) := hl ▸ List.getElem_mem hi1
    exact (List.mem_filter.mp this).1
  have hshape := (List.all_eq_true.mp hshapes) _ hmemv
  unfold layoutEntry at hle
  obtain ⟨ty, hty, hle⟩ := Except.bind_ok hle
  obtain ⟨bt, hbt, hle⟩ := Except.bind_ok hle
  have hfin : ents[i].binding = (kb.2[i]).binding ∧ ents[i].ty = bt := by
    have h2 : Except.ok _ = Except.ok ents[i] := hle
    injection h2 with h2
    rw [← h2]
    exact ⟨rfl, rfl⟩
  unfold bindingTyOf at hty
  unfold resourceShapeOk at hshape
  cases htt : m.types[(kb.2[i]).ty]? with
  | none => rw [htt] at hty; cases hty
  | some t =>
    rw [htt] at hty hshape
    injection hty with hty; subst hty
    unfold EntryOk
    rw [htt, hfin.2]
    have hnm : ∀ dim arrayed, t.inner ≠ .image dim arrayed (.sampled .float true) := by
      intro dim arrayed e
      have := (List.all_eq_true.mp hnmf) _ hmemv
      simp only [htt, e] at this
      cases this
    exact ⟨hfin.1, bindingType_accepted t _ bt hshape hnm hbt⟩

/-- "the generated layouts taken in pipeline-layout order": the pipeline layout has, at index `g`, the layout of group `g`,
for every group a resource variable is declared in – so what `create_*_pipeline` looks up at a resource's `@group` is the
layout `C02Ok` speaks about -/
def C02PipelineOk (m : Module) (out : Out) : Prop :=
  ∀ v ∈ boundGlobals m, out.pipelineGroups[v.group]? = some v.group

instance (m : Module) (out : Out) : Decidable (C02PipelineOk m out) := by unfold C02PipelineOk; infer_instance

/-- **C02** (pipeline-layout order): every resource variable's group layout sits at the variable's `@group` index of the
pipeline layout. -/
theorem C02_pipeline {m : Module} {o : Options} {src : String} {path : Option String} {out : Out}
    (hg : gen m o src path = .ok out) : C02PipelineOk m out := by
  intro v hv
  have h4 := C04 hg
  rw [h4.pipeline, h4.numbering]
  exact List.getElem?_range (lt_groupCount hv)

/-- **C02** ("is visible to that stage"): in a successful generation, the layout entry of a resource variable is visible to every
stage that has an entry point statically using the variable (directly or through helper functions) - the stage set is C03's,
here attached to the entry that `check_stage` looks up at the variable's `@group/@binding` (`C02_partial`, `C02_pipeline`). -/
theorem C02_visible {m : Module} {o : Options} {src : String} {path : Option String} {out : Out}
    (hv : CallsEarlier m) (hg : gen m o src path = .ok out) :
    ∀ g ∈ out.groups, ∀ ve ∈ (varsOf m g.no).zip g.entries, ∀ n, ve.1.name = some n →
      ∀ e ∈ m.entries, StaticallyUses m e n → ve.2.vis.has e.stage = true := by
  have hp := gen_ok hg
  obtain ⟨data, hdata, hpg, hbg⟩ := hp.data
  have hcontent := C11_ok_content (boundGlobals m) data hdata
  unfold bindGroupsModule at hbg
  obtain ⟨groups, hgroups, hbg⟩ := Except.bind_ok hbg
  injection hbg with hbg
  have hgr : out.groups = groups := (Prod.mk.inj hbg).1.symm
  intro g hgm ve hve n hn e he hu
  rw [hgr] at hgm
  obtain ⟨kb, hkb, hf⟩ := mapM_ok_mem hgroups g hgm
  obtain ⟨hl, _⟩ := hcontent.2.2 kb.1 kb.2 (by cases kb; exact hkb)
  unfold groupFacts at hf
  obtain ⟨lf, _, hf⟩ := Except.bind_ok hf
  obtain ⟨ents, hents, hf⟩ := Except.bind_ok hf
  obtain ⟨bes, _, hf⟩ := Except.bind_ok hf
  injection hf with hf; subst hf
  have hvars : varsOf m kb.1 = kb.2 := by unfold varsOf; exact hl.symm
  simp only at hve
  rw [hvars] at hve
  obtain ⟨hlen, hidx⟩ := mapM_ok_spec hents
  obtain ⟨i, hi, eq⟩ := List.getElem_of_mem hve
  simp only [List.getElem_zip] at eq
  have hi1 : i < kb.2.length := by simp at hi; omega
  have hi2 : i < ents.length := by simp at hi; omega
  have hle := hidx i hi1 hi2
  rw [← eq] at hn ⊢
  simp only at hn ⊢
  unfold layoutEntry at hle
  obtain ⟨ty, _, hle⟩ := Except.bind_ok hle
  obtain ⟨bt, _, hle⟩ := Except.bind_ok hle
  have h2 : Except.ok _ = Except.ok ents[i] := hle
  injection h2 with h2
  rw [← h2]
  simp only [hn, Option.bind_some]
  have hvis := (C03_visibility m hv n e.stage).mpr ⟨e, he, rfl, hu⟩
  simp only [StageMap.getD] at hvis
  cases hgs : (globalShaderStages m).get? n with
  | none => rw [hgs] at hvis; simp [Stages.has_none] at hvis
  | some st => rw [hgs] at hvis; exact hvis

end WgslVerif
