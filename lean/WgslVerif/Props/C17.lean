import WgslVerif.Model.Create
import WgslVerif.Lemmas.Gen
/-
C17 – Parse and validation failures come back as errors; validation only gates.
Partial: naga's parser / validator and the codespan rendering are oracles (parameters here);
the harness (`corrupt`) compares the real calls with naga called directly on corrupted sources.
-/
namespace WgslVerif

variable {PE VE : Type}

/-- a source the front end rejects yields the parse error carrying the front end's diagnostic –
whatever the options, and before anything that could panic is evaluated -/
theorem C17_parse (parse : String → Except PE Module) (validate : Module → Except VE Unit)
    (src : String) (path : Option String) (o : Options) (e : PE) (h : parse src = .error e) :
    create parse validate src path o = .error (.parseError e) := by
  unfold create; rw [h]

/-- with validation enabled, a module the validator rejects yields the validation error – again
before generation (and its panics) is reached -/
theorem C17_validate (parse : String → Except PE Module) (validate : Module → Except VE Unit)
    (src : String) (path : Option String) (o : Options) (m : Module) (e : VE)
    (hp : parse src = .ok m) (hv : o.validate = true) (he : validate m = .error e) :
    create parse validate src path o = .error (.validationError e) := by
  unfold create; rw [hp]; simp only [hv, if_true]; rw [he]

theorem structMembersFrom_congr (m : Module) (o o' : Options) (hr : o.repr = o'.repr) (len : Nat) :
    ∀ (ms : List Member) (idx : Nat), structMembersFrom m o len idx ms = structMembersFrom m o' len idx ms := by
  intro ms
  induction ms with
  | nil => intro idx; rfl
  | cons x xs ih =>
    intro idx
    unfold structMembersFrom
    simp only [hr, ih]

theorem rustStruct_opts_congr (m : Module) (o o' : Options) (gvt : List Nat) (h : Nat) (t : Ty) (ms : List Member)
    (h1 : o.bmVertex = o'.bmVertex) (h2 : o.bmHost = o'.bmHost) (h3 : o.encase = o'.encase)
    (h4 : o.serde = o'.serde) (h5 : o.repr = o'.repr) :
    rustStruct m o gvt h t ms = rustStruct m o' gvt h t ms := by
  unfold rustStruct structMembers deriveList
  simp only [h1, h2, h3, h4, structMembersFrom_congr m o o' h5]

/-- the generator proper does not look at the validation option -/
theorem gen_validate_irrelevant (m : Module) (o : Options) (src : String) (path : Option String) (b : Bool) :
    gen m { o with validate := b } src path = gen m o src path := by
  have hs : structs m { o with validate := b } = structs m o := by
    unfold structs structsWith
    congr 1
    funext ht
    cases ht.2.inner <;> try rfl
    simp only [rustStruct_opts_congr m { o with validate := b } o _ _ _ _ rfl rfl rfl rfl rfl]
  unfold gen
  rw [hs]
  rfl

/-- for sources that pass, enabling validation changes nothing in the result -/
theorem C17_gate (parse : String → Except PE Module) (validate : Module → Except VE Unit)
    (src : String) (path : Option String) (o : Options) (m : Module)
    (hp : parse src = .ok m) (hv : validate m = .ok ()) :
    create parse validate src path { o with validate := true } =
    create parse validate src path { o with validate := false } := by
  unfold create
  rw [hp]
  simp only [if_true, hv, Bool.false_eq_true, if_false]
  rw [gen_validate_irrelevant m o src path true, gen_validate_irrelevant m o src path false]

/-- the only outcomes are: parse error, validation error (only with validation on), or what
generation itself yields -/
theorem C17_total (parse : String → Except PE Module) (validate : Module → Except VE Unit)
    (src : String) (path : Option String) (o : Options) :
    (∃ e, parse src = .error e ∧ create parse validate src path o = .error (.parseError e)) ∨
    (∃ m e, parse src = .ok m ∧ o.validate = true ∧ validate m = .error e ∧
      create parse validate src path o = .error (.validationError e)) ∨
    (∃ m, parse src = .ok m ∧ (o.validate = true → validate m = .ok ()) ∧
      create parse validate src path o =
        (match gen m o src path with | .ok out => .ok out | .error e => .error (.generation e))) := by
  unfold create
  cases hp : parse src with
  | error e => exact Or.inl ⟨e, rfl, rfl⟩
  | ok m =>
    right
    cases hv : o.validate with
    | false =>
      right
      refine ⟨m, rfl, fun h => (by cases h), ?_⟩
      simp only [Bool.false_eq_true, if_false]
      rfl
    | true =>
      cases hval : validate m with
      | error e =>
        left
        refine ⟨m, e, rfl, rfl, hval, ?_⟩
        simp only [if_true, hval]
      | ok u =>
        right
        cases u
        refine ⟨m, rfl, fun _ => hval, ?_⟩
        simp only [if_true, hval]
        rfl

end WgslVerif
