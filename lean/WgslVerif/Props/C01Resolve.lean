import WgslVerif.Props.C01Static
import WgslVerif.Props.C07
/-
C01, "every referenced item is defined" (`RustStatic.resolveIssues`), clause group by clause group.
-/
namespace WgslVerif
open RustStatic

theorem contains_of_mem {α : Type} [BEq α] [LawfulBEq α] {l : List α} {a : α} (h : a ∈ l) : l.contains a = true :=
  List.contains_iff_mem.mpr h

/-! ### groups -/

/-- **C01** (groups resolve): the pipeline layout, `get_bind_group_layout`, `from_bindings`, `BindGroups` and
`set_bind_groups` only mention groups that are emitted, and bind entries only fields of their own layout struct. -/
theorem C01_resolve_groups {m : Module} {o : Options} {src : String} {path : Option String} {out : Out}
    (hg : gen m o src path = .ok out) : resolveGroups out = [] := by
  have h04 := C04 hg
  unfold resolveGroups
  simp only [List.append_eq_nil_iff]
  refine ⟨⟨?_, ?_⟩, ?_⟩
  · apply filterMap_nil_of
    intro g hgm
    rw [h04.pipeline] at hgm
    rw [contains_of_mem hgm]; rfl
  · apply List.flatMap_eq_nil_iff.mpr
    intro g hgm
    have hgo := h04.groups g hgm
    obtain ⟨w1, w2, w3, _⟩ := hgo.wiring
    have hno : (out.groups.map (·.no)).contains g.no = true := contains_of_mem (List.mem_map_of_mem hgm)
    simp only [List.append_eq_nil_iff]
    refine ⟨?_, ?_⟩
    · rw [w1, w2, w3, hno]; rfl
    · apply filterMap_nil_of
      intro b hb
      have hf := hgo.fields
      have hbd := hgo.bind
      have h1 : some b.field ∈ g.bindEntries.map (fun e => some e.field) := List.mem_map.mpr ⟨b, hb, rfl⟩
      have h2 : g.bindEntries.map (fun e => some e.field) = (varsOf m g.no).map (·.name) := by
        have := congrArg (List.map (fun x => x.2.2)) hbd
        simpa [List.map_map, Function.comp_def] using this
      have h3 : g.layoutFields.map (fun f => some f.1) = (varsOf m g.no).map (·.name) := by
        have := congrArg (List.map (·.1)) hf
        simpa [List.map_map, Function.comp_def] using this
      rw [h2, ← h3] at h1
      obtain ⟨f, hfm, hfe⟩ := List.mem_map.mp h1
      have : b.field ∈ g.layoutFields.map (·.1) := by
        injection hfe with hfe
        exact List.mem_map.mpr ⟨f, hfm, hfe⟩
      rw [contains_of_mem this]; rfl
  · have hsa := h04.setAll
    cases hbm : out.bindModule with
    | none => rfl
    | some bm =>
      rw [hbm] at hsa
      obtain ⟨⟨a, b, c, d, _⟩, _⟩ := hsa
      dsimp only
      apply filterMap_nil_of
      intro g hgm
      have : g ∈ out.groups.map (·.no) := by
        rw [a, b, c, d] at hgm
        simp only [List.map_map, Function.comp_def, List.map_id', List.mem_append] at hgm
        rcases hgm with ((h | h) | h) | h <;> simpa using h
      rw [contains_of_mem this]; rfl

/-! ### push constant range -/

theorem C01_resolve_push {m : Module} {o : Options} {src : String} {path : Option String} {out : Out}
    (hg : gen m o src path = .ok out) : resolvePush out = [] := by
  have hp := gen_ok hg
  obtain ⟨push, _, hps, hpr⟩ := hp.push
  unfold resolvePush
  apply filterMap_nil_of
  intro r hr
  rw [hpr] at hr
  rw [hps]
  cases push with
  | none => cases hr
  | some p =>
    unfold pushRangesOf at hr
    simp only [List.mem_singleton] at hr
    subst hr
    rfl

/-! ### field types -/

theorem mem_names_of_structDerives {structs : List RStruct} {d n : String}
    (h : structDerives structs d n = true) : n ∈ structs.map (·.name) := by
  unfold structDerives findStruct at h
  cases hf : structs.find? (fun s => s.name == n) with
  | none => rw [hf] at h; cases h
  | some s =>
    have hm := List.mem_of_find?_eq_some hf
    have hn := List.find?_some hf
    exact List.mem_map.mpr ⟨s, hm, by simpa using hn⟩

/-- **C01** (field types resolve): every struct a field type mentions is emitted. -/
theorem C01_resolve_field_types {m : Module} {o : Options} {src : String} {path : Option String} {out : Out}
    (hb : DeriveBenign m o) (hg : gen m o src path = .ok out) : resolveFieldTypes out = [] := by
  have hp := gen_ok hg
  unfold resolveFieldTypes
  apply List.flatMap_eq_nil_iff.mpr
  intro s hs
  obtain ⟨hd, ty, ms, sp, hin, hw, hi, hr⟩ := structs_mem hp.structs hs
  have hty := mem_indexed.mp hin
  obtain ⟨name, fields, offs, _, hf, _, _, _, _, e⟩ := rustStruct_ok hr
  unfold structMembers at hf
  obtain ⟨hfrom, _⟩ := structMembersFrom_from _ 0 fields (by simp) hf
  have hfe : s.fields = fields := by rw [e]
  apply List.flatMap_eq_nil_iff.mpr
  intro f hfm
  rw [hfe] at hfm
  apply filterMap_nil_of
  intro n hn
  have hdbg : "Debug" ∈ deriveList o (structHasRtsArrayMember m (nonBuiltin ms)) ((globalVariableTypes m).contains hd) := by
    unfold deriveList deriveListB
    simp
  obtain ⟨mem, hmem, tym, htym, _, hcase⟩ := hfrom f hfm
  have hsd : structDerives out.structs "Debug" n = true := by
    rcases hcase with ⟨base, stride, bt, el, hia, hbt, hel, hfty, _⟩ | ⟨_, hrt, _⟩
    · rw [hfty] at hn
      simp only [namedIn] at hn
      obtain ⟨h', ty', ms', sp', a, b, c, dd⟩ := rustType_named m o.repr _ base bt el hbt hel n hn
      have hstep : TyReach m mem.ty h' := TyReach.step (by unfold typeSucc; simp [htym, hia]) dd
      exact named_ok hb hg hty hi hw hmem hstep a b c hdbg
    · obtain ⟨h', ty', ms', sp', a, b, c, dd⟩ := rustType_named m o.repr _ mem.ty tym f.ty htym hrt n hn
      exact named_ok hb hg hty hi hw hmem dd a b c hdbg
  rw [contains_of_mem (mem_names_of_structDerives hsd)]; rfl

/-! ### entry helpers -/

theorem dedupByName_names (l : List VertexInput) : ∀ x ∈ l, ∃ y ∈ dedupByName l, y.name = x.name := by
  fun_induction dedupByName l with
  | case1 => intro x hx; cases hx
  | case2 a => intro x hx; exact ⟨x, hx, rfl⟩
  | case3 a b rest heq ih =>
    intro x hx
    rcases List.mem_cons.mp hx with rfl | hx
    · exact ih x List.mem_cons_self
    · rcases List.mem_cons.mp hx with rfl | hx
      · obtain ⟨y, hy, hn⟩ := ih a List.mem_cons_self
        exact ⟨y, hy, by rw [hn, heq]⟩
      · exact ih x (List.mem_cons_of_mem _ hx)
  | case4 a b rest hne ih =>
    intro x hx
    rcases List.mem_cons.mp hx with rfl | hx
    · exact ⟨x, List.mem_cons_self, rfl⟩
    · obtain ⟨y, hy, hn⟩ := ih x hx
      exact ⟨y, List.mem_cons_of_mem _ hy, hn⟩

/-- the attribute tables are named after the vertex input structs -/
theorem vertex_names {m : Module} {vs : List RVertex} (h : vertexStructMethods m = .ok vs) :
    ∃ inputs, getVertexInputStructs m = .ok inputs ∧ vs.map (·.name) = inputs.map (·.name) := by
  unfold vertexStructMethods at h
  obtain ⟨inputs, hin, hvx⟩ := Except.bind_ok h
  refine ⟨inputs, hin, ?_⟩
  refine mapM_ok_map_eq hvx (fun inp _ v hv => ?_)
  obtain ⟨attrs, _, hv⟩ := Except.bind_ok hv
  cases hv
  rfl

/-- every struct parameter of a vertex entry has an attribute table -/
theorem entry_input_has_table {m : Module} {vs : List RVertex} (h : vertexStructMethods m = .ok vs)
    {e : EntryPoint} (he : e ∈ vertexEntriesOf m) {inputs : List VertexInput}
    (hin : vertexEntryStructs m e = .ok inputs) {i : VertexInput} (hi : i ∈ inputs) :
    i.name ∈ vs.map (·.name) := by
  obtain ⟨all, hall, hnames⟩ := vertex_names h
  rw [hnames]
  unfold getVertexInputStructs at hall
  obtain ⟨per, hper, hall⟩ := Except.bind_ok hall
  cases hall
  obtain ⟨l, hl, hfl⟩ := mapM_ok_mem' hper e he
  rw [hin] at hfl
  cases hfl
  have h1 : i ∈ per.flatten := List.mem_flatten.mpr ⟨inputs, hl, hi⟩
  have h2 : i ∈ per.flatten.mergeSort fun a b => decide (a.name ≤ b.name) := List.mem_mergeSort.mpr h1
  obtain ⟨y, hy, hn⟩ := dedupByName_names _ i h2
  exact List.mem_map.mpr ⟨y, hy, hn⟩

theorem overrides_isSome {m : Module} {ov : Option ROverrides} (h : pipelineOverridableConstants m = .ok ov) :
    ov.isSome = !m.overrides.isEmpty := by
  unfold pipelineOverridableConstants at h
  obtain ⟨fields, hfs, h⟩ := Except.bind_ok h
  obtain ⟨req, _, h⟩ := Except.bind_ok h
  obtain ⟨opt, _, h⟩ := Except.bind_ok h
  have hlen := (mapM_ok_spec hfs).1
  split at h
  · rename_i hc
    injection h with h; rw [← h]
    have : fields = [] := List.isEmpty_iff.mp hc
    rw [this] at hlen
    have : m.overrides = [] := List.eq_nil_of_length_eq_zero hlen.symm
    rw [this]; rfl
  · rename_i hc
    injection h with h; rw [← h]
    cases ho : m.overrides with
    | nil => rw [ho] at hlen; exact (hc (List.isEmpty_iff.mpr (List.eq_nil_of_length_eq_zero hlen))).elim
    | cons a l => rfl

/-- **C01** (entry helpers resolve): each `<entry>_entry` helper refers to its own `ENTRY_*` constant, to attribute
tables that exist, to its own step-mode parameters, and to `OverrideConstants` exactly when that struct exists. -/
theorem C01_resolve_entries {m : Module} {o : Options} {src : String} {path : Option String} {out : Out}
    (hg : gen m o src path = .ok out) : resolveEntries out = [] := by
  have hp := gen_ok hg
  have hov := overrides_isSome hp.overrides
  have hec : ∀ e ∈ m.entries, (out.entryConsts.map (·.1)).contains ("ENTRY_" ++ e.upper) = true := by
    intro e he
    apply contains_of_mem
    rw [hp.entryConsts]
    unfold entryPointConstants
    exact List.mem_map.mpr ⟨("ENTRY_" ++ e.upper, e.name), List.mem_map.mpr ⟨e, he, rfl⟩, rfl⟩
  unfold resolveEntries
  simp only [List.append_eq_nil_iff]
  refine ⟨?_, ?_⟩
  · apply List.flatMap_eq_nil_iff.mpr
    intro ve hve
    have hv := hp.vertexEntries
    unfold vertexEntries at hv
    obtain ⟨e, he, hfe⟩ := mapM_ok_mem hv ve hve
    obtain ⟨inputs, hin, hfe⟩ := Except.bind_ok hfe
    cases hfe
    simp only [List.append_eq_nil_iff]
    refine ⟨⟨?_, ?_⟩, ?_⟩
    · rw [hec e (List.mem_filter.mp he).1]; rfl
    · apply List.flatMap_eq_nil_iff.mpr
      intro b hb
      obtain ⟨i, hi, rfl⟩ := List.mem_map.mp hb
      have h1 := contains_of_mem (entry_input_has_table hp.vertex he hin hi)
      have h2 : (((inputs.map fun i => (i.snake, "wgpu :: VertexStepMode")) ++ overridesParam m).map (·.1)).contains i.snake = true := by
        apply contains_of_mem
        rw [List.map_append]
        exact List.mem_append_left _ (List.mem_map.mpr ⟨(i.snake, "wgpu :: VertexStepMode"), List.mem_map.mpr ⟨i, hi, rfl⟩, rfl⟩)
      dsimp only
      rw [h1, h2]; rfl
    · unfold constSrc overridesParam
      rw [hov]
      cases hoe : m.overrides.isEmpty with
      | true => rfl
      | false =>
        simp only [Bool.false_eq_true, if_false, Bool.not_false, Bool.true_and]
        have : (((inputs.map fun i => (i.snake, "wgpu :: VertexStepMode")) ++ [("overrides", "& OverrideConstants")]).map (·.1)).contains "overrides" = true := by
          apply contains_of_mem; simp
        rw [this]; rfl
  · apply List.flatMap_eq_nil_iff.mpr
    intro fe hfe
    rw [hp.fragmentEntries] at hfe
    unfold fragmentEntries at hfe
    obtain ⟨e, he, rfl⟩ := List.mem_map.mp hfe
    simp only [List.append_eq_nil_iff]
    refine ⟨?_, ?_⟩
    · rw [hec e (List.mem_filter.mp he).1]; rfl
    · unfold constSrc overridesParam
      rw [hov]
      cases hoe : m.overrides.isEmpty with
      | true => rfl
      | false => simp

/-! ### attribute tables -/

/-- WGSL-side condition (decidable): every struct parameter of a vertex entry point is emitted, i.e. it is not at
the same time an entry point's return type – unless a module-scope variable reaches it.  (The excluded modules are
the recorded finding `rustc#vertex-input-struct-not-emitted`.) -/
def VertexInputsEmitted (m : Module) : Prop :=
  ∀ e ∈ m.entries, e.stage = .vertex → ∀ a ∈ e.fn.args, a.2 = none → ∀ vi, vertexInputOf m a = .ok (some vi) →
    structWanted m (globalVariableTypes m) a.1 = true

def vertexInputsEmittedB (m : Module) : Bool :=
  m.entries.all fun e => e.stage != .vertex || e.fn.args.all fun a => a.2.isSome ||
    match vertexInputOf m a with
    | .ok (some _) => structWanted m (globalVariableTypes m) a.1
    | _ => true

theorem vertexInputsEmittedB_sound (m : Module) (h : vertexInputsEmittedB m = true) : VertexInputsEmitted m := by
  unfold vertexInputsEmittedB at h
  rw [List.all_eq_true] at h
  intro e he hst a ha ha2 vi hvi
  have := h e he
  simp only [Bool.or_eq_true, bne_iff_ne, ne_eq, List.all_eq_true] at this
  rcases this with h1 | h1
  · exact (h1 hst).elim
  · have := h1 a ha
    rw [ha2, hvi] at this
    simpa using this

/-- a wanted struct type is emitted -/
theorem emitted_of_wanted {m : Module} {o : Options} {src : String} {path : Option String} {out : Out}
    (hg : gen m o src path = .ok out) {h : Nat} {ty : Ty} {ms : List Member} {sp : Nat}
    (hty : m.types[h]? = some ty) (hi : ty.inner = .struct ms sp)
    (hw : structWanted m (globalVariableTypes m) h = true) :
    ∃ s ∈ out.structs, rustStruct m o (globalVariableTypes m) h ty ms = .ok s := by
  have hp := gen_ok hg
  have hs := hp.structs
  rw [structs_def] at hs
  have hin : (h, ty) ∈ (indexed m.types).filter fun ht => structWanted m (globalVariableTypes m) ht.1 :=
    List.mem_filter.mpr ⟨mem_indexed.mpr hty, hw⟩
  obtain ⟨ob, hob, hobm⟩ := filterMapM_ok_all hs (h, ty) hin
  unfold structOf at hob
  simp only [hi] at hob
  obtain ⟨s', hs', hob⟩ := Except.bind_ok hob
  cases hob
  exact ⟨s', hobm s' rfl, hs'⟩

/-- **C01** (attribute tables resolve): every `impl S { VERTEX_ATTRIBUTES; vertex_buffer_layout }` block is about an
emitted struct `S`, and every `offset_of!(S, field)` names a field of it. -/
theorem C01_resolve_vertex {m : Module} {o : Options} {src : String} {path : Option String} {out : Out}
    (ha : TypeArenaOk m) (hve : VertexInputsEmitted m) (hg : gen m o src path = .ok out) : resolveVertex out = [] := by
  have hp := gen_ok hg
  have hvx := hp.vertex
  unfold vertexStructMethods at hvx
  obtain ⟨inputs, hin, hvx⟩ := Except.bind_ok hvx
  -- facts per table
  have key : ∀ v ∈ out.vertex, ∃ s ∈ out.structs, s.name = v.name ∧ v.strideOf = v.name ∧ v.attrsOf = v.name ∧
      ∀ a ∈ v.attrs, a.ofStruct = v.name ∧ ∃ f ∈ s.fields, f.name = a.field := by
    intro v hv
    obtain ⟨inp, hinp, hfv⟩ := mapM_ok_mem hvx v hv
    obtain ⟨attrs, hattrs, hfv⟩ := Except.bind_ok hfv
    cases hfv
    obtain ⟨e, he, hst, a, ham, ha2, hvi⟩ := getVertexInputStructs_mem hin inp hinp
    obtain ⟨_, _, ty, members, span, hty, hi, hloc, _⟩ := vertexInputOf_name hvi
    have hw := hve e he hst a ham ha2 inp hvi
    obtain ⟨s, hsm, hrs⟩ := emitted_of_wanted hg hty hi hw
    obtain ⟨name, fields, offs, hname, hf, _, _, _, _, es⟩ := rustStruct_ok hrs
    have hnm : s.name = inp.name := by
      rw [es]; dsimp only
      unfold vertexInputOf at hvi
      rw [hty] at hvi
      simp only [hi] at hvi
      obtain ⟨nm, hnm, hvi⟩ := Except.bind_ok hvi
      obtain ⟨fl, _, hvi⟩ := Except.bind_ok hvi
      cases hvi
      rw [hname] at hnm
      cases hnm; rfl
    refine ⟨s, hsm, hnm, rfl, rfl, ?_⟩
    intro at' hat
    obtain ⟨lm, hlm, hfa⟩ := mapM_ok_mem hattrs at' hat
    obtain ⟨fname, hfn, hfa⟩ := Except.bind_ok hfa
    obtain ⟨tyy, _, hfa⟩ := Except.bind_ok hfa
    obtain ⟨fmt, _, hfa⟩ := Except.bind_ok hfa
    cases hfa
    refine ⟨rfl, ?_⟩
    -- the located member is a non-builtin member, hence a field
    have hspec := locatedMembers_spec hloc
    rw [hspec] at hlm
    obtain ⟨mem, hmem, hmb⟩ := List.mem_filterMap.mp hlm
    have hlm2 : lm.2 = mem ∧ isBuiltinMember mem = false := by
      unfold isBuiltinMember
      split at hmb
      · rename_i l hb; cases hmb; simp [hb]
      · cases hmb
    have hmemnb : mem ∈ members.filter fun mm => !isBuiltinMember mm :=
      List.mem_filter.mpr ⟨hmem, by simp [hlm2.2]⟩
    unfold structMembers at hf
    have hnames := structMembersFrom_names _ 0 fields hf
    have hname' : mem.name = some fname := by
      rw [hlm2.1] at hfn
      cases hn : mem.name with
      | none => rw [hn] at hfn; cases hfn
      | some n => rw [hn] at hfn; cases hfn; rfl
    have h1 : some fname ∈ (members.filter fun mm => !isBuiltinMember mm).map (·.name) :=
      List.mem_map.mpr ⟨mem, hmemnb, hname'⟩
    rw [← hnames] at h1
    obtain ⟨f, hfm, hfe⟩ := List.mem_map.mp h1
    have hsf : s.fields = fields := by rw [es]
    rw [hsf]
    exact ⟨f, hfm, by injection hfe⟩
  have hnd := C08_nodup ha hg
  unfold resolveVertex
  simp only [List.append_eq_nil_iff]
  refine ⟨?_, ?_⟩
  · apply filterMap_nil_of
    intro v hv
    obtain ⟨s, hsm, hn, _⟩ := key v hv
    have : v.name ∈ out.structs.map (·.name) := hn ▸ List.mem_map_of_mem hsm
    rw [contains_of_mem this]; rfl
  · apply List.flatMap_eq_nil_iff.mpr
    intro v hv
    obtain ⟨s, hsm, hn, h1, h2, h3⟩ := key v hv
    have hsn : v.name ∈ out.structs.map (·.name) := hn ▸ List.mem_map_of_mem hsm
    simp only [List.append_eq_nil_iff]
    refine ⟨⟨?_, ?_⟩, ?_⟩
    · rw [h1, contains_of_mem hsn]; rfl
    · rw [h2, contains_of_mem (List.mem_map_of_mem hv)]; rfl
    · apply filterMap_nil_of
      intro a' ha'
      obtain ⟨ho, f, hfm, hfn⟩ := h3 a' ha'
      rw [ho, contains_of_mem hsn]
      have hfind := findStruct_of_mem out.structs hnd s hsm
      rw [hn] at hfind
      have : structHasField out.structs v.name a'.field = true := by
        unfold structHasField
        rw [hfind]
        exact List.any_eq_true.mpr ⟨f, hfm, by simp [hfn]⟩
      rw [this]; rfl

/-! ### all of "every referenced item is defined" -/

/-- **C01** (references resolve): for a benign module whose vertex input structs are emitted, `Ext.RustStatic`
finds no unresolved reference in a successfully generated module. -/
theorem C01_resolve {m : Module} {o : Options} {src : String} {path : Option String} {out : Out}
    (hb : DeriveBenign m o) (hve : VertexInputsEmitted m) (hg : gen m o src path = .ok out) :
    resolveIssues out = [] := by
  unfold resolveIssues
  rw [C01_resolve_field_types hb hg, C01_resolve_vertex hb.arena hve hg, C01_resolve_entries hg,
    C01_resolve_groups hg, C01_resolve_push hg]
  rfl

/-- **C01** (static semantics, full): for every module and option set meeting the four decidable WGSL-side
conditions, on the prettyplease path, `Ext.RustStatic` finds nothing at all in a successfully generated module –
no duplicate item, no shadowed crate, no unresolved reference, no unsatisfiable derive, no mistyped literal, no
keyword identifier, no capturable constant.  This is `C01_static_full` with the vertex-input hypothesis added. -/
theorem C01_static {m : Module} {o : Options} {src : String} {path : Option String} {out : Out}
    (hn : namesBenignB m = true) (hd : deriveBenignB m o = true) (hs : shadowBenignB m = true)
    (hv : vertexInputsEmittedB m = true) (hr : o.rustfmt = false) (hg : gen m o src path = .ok out) :
    RustStatic.issues out = [] := by
  obtain ⟨h1, h2, h3, h4, h5, h6⟩ := C01_static_partial hn hd hs hr hg
  unfold RustStatic.issues
  rw [h1, h2, C01_resolve (deriveBenignB_sound m o hd) (vertexInputsEmittedB_sound m hv) hg, h3, h4, h5, h6]
  rfl

/-- the whole static semantics predicate on the model's output -/
theorem C01_static_ok {m : Module} {o : Options} {src : String} {path : Option String} {out : Out}
    (hn : namesBenignB m = true) (hd : deriveBenignB m o = true) (hs : shadowBenignB m = true)
    (hv : vertexInputsEmittedB m = true) (hr : o.rustfmt = false) (hg : gen m o src path = .ok out) :
    RustStatic.ok out = true := by
  unfold RustStatic.ok
  rw [C01_static hn hd hs hv hr hg]
  rfl

example : vertexInputsEmittedB (C01DeriveExample.modl (.scalar ⟨.sint, 4⟩)) = true := by decide

end WgslVerif
