import WgslVerif.Lemmas.Gen
import WgslVerif.Props.C03
/-
C13 – Push constant range covers the variable, from offset 0, once.
`Ty.size` is naga's `TypeInner::size`, i.e. the WGSL byte size (validated against
`Ext.WgslLayout` on every dumped module by the C05 check).
-/
namespace WgslVerif

/-- the push-constant variable (WGSL allows at most one per entry point; the first one) -/
def pushVar (m : Module) : Option Global := m.globals.find? fun g => g.space == .pushConstant

/-- the stage set the property prescribes: the stages using the variable, or all stages that
have an entry point when nothing uses it -/
def pushStagesSpec (m : Module) (g : Global) : Stages :=
  match g.name.bind (globalShaderStages m).get? with
  | some s => s
  | none => entryStages m

/-- what the property prescribes: no range and no constant without a push constant; otherwise
exactly one range `0..size` referring to the exported constant, whose value is `pushStagesSpec` -/
def pushExpected (m : Module) : Option (List RPushRange × Option (String × Stages)) :=
  match pushVar m with
  | none => some ([], none)
  | some g =>
    match m.types[g.ty]? with
    | some ty => some ([⟨"PUSH_CONSTANT_STAGES", 0, ty.size⟩], some ("PUSH_CONSTANT_STAGES", pushStagesSpec m g))
    | none => none

def C13Ok (m : Module) (out : Out) : Prop := pushExpected m = some (out.pushRanges, out.pushStages)

instance (m : Module) (out : Out) : Decidable (C13Ok m out) := by unfold C13Ok; infer_instance

/-- **C13**: exactly one range `0..size` referring to the exported stage constant iff a push
constant is declared. -/
theorem C13 {m : Module} {o : Options} {src : String} {path : Option String} {out : Out}
    (hg : gen m o src path = .ok out) : C13Ok m out := by
  have hp := gen_ok hg
  obtain ⟨push, hpush, hps, hpr⟩ := hp.push
  unfold pushConstantRangeStages at hpush
  unfold C13Ok pushExpected pushVar pushStagesSpec
  cases hfind : m.globals.find? (fun g => g.space == .pushConstant) with
  | none =>
    rw [hfind] at hpush
    injection hpush with hpush; subst hpush
    simp only [hpr, hps]; rfl
  | some g =>
    rw [hfind] at hpush
    simp only at hpush ⊢
    cases hty : m.types[g.ty]? with
    | none => rw [hty] at hpush; cases hpush
    | some ty =>
      rw [hty] at hpush
      injection hpush with hpush; subst hpush
      simp only [hpr, hps]; rfl

/-- **C13** (which stages, used case): if some entry point statically uses the variable, stage
`s` is in the range's stage set iff an entry point of stage `s` statically uses it. -/
theorem C13_stages_used {m : Module} (hv : CallsEarlier m) (g : Global) (n : String)
    (hn : g.name = some n) (hu : ∃ e ∈ m.entries, StaticallyUses m e n) (s : Stage) :
    (pushStagesSpec m g).has s = true ↔ ∃ e ∈ m.entries, e.stage = s ∧ StaticallyUses m e n := by
  have hpres := (C03_present m hv n).mpr hu
  unfold pushStagesSpec
  rw [hn]
  simp only [Option.bind_some]
  cases hget : (globalShaderStages m).get? n with
  | none => rw [hget] at hpres; cases hpres
  | some st =>
    have := C03_visibility m hv n s
    unfold StageMap.getD at this
    rw [hget] at this
    exact this

/-- **C13** (which stages, unused case): if nothing uses the variable the set is all stages that
have an entry point. -/
theorem C13_stages_unused {m : Module} (hv : CallsEarlier m) (g : Global) (n : String)
    (hn : g.name = some n) (hu : ¬ ∃ e ∈ m.entries, StaticallyUses m e n) (s : Stage) :
    (pushStagesSpec m g).has s = true ↔ ∃ e ∈ m.entries, e.stage = s := by
  have hpres := C03_present m hv n
  unfold pushStagesSpec
  rw [hn]
  simp only [Option.bind_some]
  cases hget : (globalShaderStages m).get? n with
  | none => exact C03_entryStages m s
  | some st => rw [hget] at hpres; exact absurd (hpres.mp rfl) hu

end WgslVerif
