import WgslVerif.Model.Create
/-
C19 – Formatter choice and formatter failure never change the program.

`ProcEnv` lists the operating system's answers to `pretty_print_rustfmt`; which fault produces
which answer (EPIPE when the child exits before a write larger than the pipe buffer, …) is OS
behaviour and is established by the `faults` harness with stub formatters. Partial: token
preservation by prettyplease/rustfmt is checked per case, not proved.
-/
namespace WgslVerif

/-- the formatter did its job: started, took the input, exited successfully, printed UTF-8 -/
def ProcEnv.Succeeded (env : ProcEnv) (out : String) : Prop :=
  env.spawn = true ∧ env.write = true ∧ env.wait = some (true, some out)

/-- every fault the property lists: absent (spawn fails), exit ≠ 0 after reading, exit ≠ 0 /
killed before reading (write fails), killed (wait reports failure), prints nothing -/
def ProcEnv.Failed (env : ProcEnv) : Prop :=
  env.spawn = false ∨ env.write = false ∨ env.wait = none ∨
  (∃ o, env.wait = some (false, o)) ∨ env.wait = some (true, none) ∨ env.wait = some (true, some "")

/-- what the property demands of `pretty_print_rustfmt` -/
def C19Ok (f : ProcEnv → String → FmtOutcome) : Prop :=
  (∀ env raw, env.Failed → f env raw = .returned raw) ∧
  (∀ env raw out, env.Succeeded out → out ≠ "" → f env raw = .returned out) ∧
  (∀ env raw, ∀ why, f env raw ≠ .panicked why)

/-- **C19 counterexample** (the defect): when the formatter is gone before its input is written
(`write_all` fails with EPIPE) the function panics; when it succeeds printing nothing the empty
string is returned instead of the program. -/
theorem C19_counterexample :
    prettyPrintRustfmt { spawn := true, write := false, wait := some (false, some "") } "fn main(){}"
      = .panicked "write_all(..).unwrap()" ∧
    prettyPrintRustfmt { spawn := true, write := true, wait := some (true, some "") } "fn main(){}"
      = .returned "" := by decide

/-- **C19 (partial)**: for the faults the code as it stands handles – formatter absent, or exit
status ≠ 0 after the input was taken – the unformatted program is returned. -/
theorem C19_partial (env : ProcEnv) (raw : String)
    (h : env.spawn = false ∨ (env.write = true ∧ ∃ o, env.wait = some (false, o))) :
    prettyPrintRustfmt env raw = .returned raw := by
  unfold prettyPrintRustfmt
  rcases h with h | ⟨hw, o, ho⟩
  · simp [h]
  · cases hs : env.spawn <;> simp [hw, ho]

/-- a successful formatter's output is returned -/
theorem C19_ok (env : ProcEnv) (raw out : String) (h : env.Succeeded out) :
    prettyPrintRustfmt env raw = .returned out := by
  obtain ⟨h1, h2, h3⟩ := h
  unfold prettyPrintRustfmt; simp [h1, h2, h3]

end WgslVerif
