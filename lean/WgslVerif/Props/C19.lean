import WgslVerif.Model.Create
/-
C19 – Formatter choice and formatter failure never change the program.

`ProcEnv` lists the operating system's answers to `pretty_print_rustfmt`; which fault produces
which answer (EPIPE when the child exits before a write larger than the pipe buffer, …) is OS
behaviour and is established by the `faults` harness with stub formatters. Partial: token
preservation by prettyplease/rustfmt is checked per case, not proved.
-/
namespace WgslVerif

/-- the formatter did its job: started, took the input, exited successfully, printed UTF-8 -/
def ProcEnv.Succeeded (env : ProcEnv) (out : String) : Prop :=
  env.spawn = true ∧ env.write = true ∧ env.wait = some (true, some out)

/-- every fault the property lists: absent (spawn fails), exit ≠ 0 after reading, exit ≠ 0 /
killed before reading (write fails), killed (wait reports failure), prints nothing -/
def ProcEnv.Failed (env : ProcEnv) : Prop :=
  env.spawn = false ∨ env.write = false ∨ env.wait = none ∨
  (∃ o, env.wait = some (false, o)) ∨ env.wait = some (true, none) ∨ env.wait = some (true, some "")

/-- what the property demands of `pretty_print_rustfmt` -/
def C19Ok (f : ProcEnv → String → FmtOutcome) : Prop :=
  (∀ env raw, env.Failed → f env raw = .returned raw) ∧
  (∀ env raw out, env.Succeeded out → out ≠ "" → f env raw = .returned out) ∧
  (∀ env raw, ∀ why, f env raw ≠ .panicked why)

/-- **C19** (faults): every fault the property lists makes the function return the unformatted
program. -/
theorem C19_faults (env : ProcEnv) (raw : String) (h : env.Failed) :
    prettyPrintRustfmt env raw = .returned raw := by
  unfold prettyPrintRustfmt
  obtain ⟨sp, wr, wt⟩ := env
  unfold ProcEnv.Failed at h
  simp only at h ⊢
  cases sp <;> cases wr <;> simp only [Bool.not_true, Bool.not_false, if_true, if_false, Bool.false_eq_true]
  all_goals first
    | rfl
    | (cases wt with
       | none => rfl
       | some p =>
         obtain ⟨succ, out⟩ := p
         cases succ <;> cases out <;> simp_all)

/-- **C19** (success): a formatter that ran to completion and printed something is believed. -/
theorem C19_ok (env : ProcEnv) (raw out : String) (h : env.Succeeded out) (hne : out ≠ "") :
    prettyPrintRustfmt env raw = .returned out := by
  obtain ⟨h1, h2, h3⟩ := h
  unfold prettyPrintRustfmt; simp [h1, h2, h3, hne]

/-- **C19** (total): whatever the operating system answers, the function never panics. -/
theorem C19_total (env : ProcEnv) (raw why : String) : prettyPrintRustfmt env raw ≠ .panicked why := by
  unfold prettyPrintRustfmt
  obtain ⟨sp, wr, wt⟩ := env
  cases sp <;> cases wr <;> simp only [Bool.not_true, Bool.not_false, if_true, if_false, Bool.false_eq_true]
  all_goals first
    | (intro h; cases h)
    | (cases wt with
       | none => intro h; cases h
       | some p =>
         obtain ⟨succ, out⟩ := p
         cases succ <;> cases out <;> simp <;> (try (split <;> simp)))

/-- **C19**: the three clauses together. -/
theorem C19 : C19Ok prettyPrintRustfmt :=
  ⟨C19_faults, fun env raw out h hne => C19_ok env raw out h hne, C19_total⟩

/-- The finding this check made (repaired in /repo): before the repair the function panicked when
the formatter was gone before its input was written (`write_all` fails with EPIPE), and returned
the empty string when the formatter succeeded printing nothing. -/
theorem C19_legacy_counterexample :
    Legacy.prettyPrintRustfmt { spawn := true, write := false, wait := some (false, some "") } "fn main(){}"
      = .panicked "write_all(..).unwrap()" ∧
    Legacy.prettyPrintRustfmt { spawn := true, write := true, wait := some (true, some "") } "fn main(){}"
      = .returned "" := by decide

/-- non-vacuity: a formatter killed before reading is a `Failed` environment -/
example : ({ spawn := true, write := false, wait := some (false, some "") } : ProcEnv).Failed := Or.inr (Or.inl rfl)

end WgslVerif
