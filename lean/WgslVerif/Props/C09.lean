import WgslVerif.Lemmas.Gen
/-
C09 – Derives and repr follow the write options exactly.

`DerivesOk o hs rts s` is the decision table of the property, stated as membership facts about
the emitted derive list (it does not mention how the list is built).  `hs` = the struct is
reachable from a module-scope variable; `rts` = it ends in a runtime-sized array.
-/
namespace WgslVerif

def knownDerives : List String :=
  ["Debug", "Copy", "Clone", "PartialEq", "bytemuck::Pod", "bytemuck::Zeroable", "encase::ShaderType",
   "serde::Serialize", "serde::Deserialize"]

/-- the property's decision table for one emitted struct -/
structure DerivesOk (o : Options) (hs rts : Bool) (s : RStruct) : Prop where
  always : "Debug" ∈ s.derives ∧ "Clone" ∈ s.derives ∧ "PartialEq" ∈ s.derives
  copy : "Copy" ∈ s.derives ↔ rts = false
  reprC : s.reprC = !rts
  pod : "bytemuck::Pod" ∈ s.derives ↔ ((o.bmVertex = true ∧ hs = false) ∨ (o.bmHost = true ∧ hs = true))
  zeroable : "bytemuck::Zeroable" ∈ s.derives ↔ "bytemuck::Pod" ∈ s.derives
  shaderType : "encase::ShaderType" ∈ s.derives ↔ (o.encase = true ∧ hs = true)
  serialize : "serde::Serialize" ∈ s.derives ↔ o.serde = true
  deserialize : "serde::Deserialize" ∈ s.derives ↔ o.serde = true
  asserts : s.asserts ≠ [] ↔ (o.bmHost = true ∧ hs = true)
  closed : ∀ d ∈ s.derives, d ∈ knownDerives
  nodup : s.derives.Nodup

instance (o : Options) (hs rts : Bool) (s : RStruct) : Decidable (DerivesOk o hs rts s) :=
  decidable_of_iff
    (("Debug" ∈ s.derives ∧ "Clone" ∈ s.derives ∧ "PartialEq" ∈ s.derives) ∧
     ("Copy" ∈ s.derives ↔ rts = false) ∧ (s.reprC = !rts) ∧
     ("bytemuck::Pod" ∈ s.derives ↔ ((o.bmVertex = true ∧ hs = false) ∨ (o.bmHost = true ∧ hs = true))) ∧
     ("bytemuck::Zeroable" ∈ s.derives ↔ "bytemuck::Pod" ∈ s.derives) ∧
     ("encase::ShaderType" ∈ s.derives ↔ (o.encase = true ∧ hs = true)) ∧
     ("serde::Serialize" ∈ s.derives ↔ o.serde = true) ∧
     ("serde::Deserialize" ∈ s.derives ↔ o.serde = true) ∧
     (s.asserts ≠ [] ↔ (o.bmHost = true ∧ hs = true)) ∧
     (∀ d ∈ s.derives, d ∈ knownDerives) ∧ s.derives.Nodup)
    ⟨fun ⟨a, b, c, d, e, f, g, h, i, j, k⟩ => ⟨a, b, c, d, e, f, g, h, i, j, k⟩,
     fun ⟨a, b, c, d, e, f, g, h, i, j, k⟩ => ⟨a, b, c, d, e, f, g, h, i, j, k⟩⟩

/-- the table, as a closed statement about the derive list alone -/
def TableOk (bv bh en se hs rts : Bool) (ds : List String) : Prop :=
  ("Debug" ∈ ds ∧ "Clone" ∈ ds ∧ "PartialEq" ∈ ds) ∧
  ("Copy" ∈ ds ↔ rts = false) ∧
  ("bytemuck::Pod" ∈ ds ↔ ((bv = true ∧ hs = false) ∨ (bh = true ∧ hs = true))) ∧
  ("bytemuck::Zeroable" ∈ ds ↔ "bytemuck::Pod" ∈ ds) ∧
  ("encase::ShaderType" ∈ ds ↔ (en = true ∧ hs = true)) ∧
  ("serde::Serialize" ∈ ds ↔ se = true) ∧
  ("serde::Deserialize" ∈ ds ↔ se = true) ∧
  (∀ d ∈ ds, d ∈ knownDerives) ∧ ds.Nodup

instance (bv bh en se hs rts : Bool) (ds : List String) : Decidable (TableOk bv bh en se hs rts ds) := by
  unfold TableOk; infer_instance

/-- all 64 combinations of the four switches, host-shareability and runtime-array termination
(the two bytemuck switches put `Pod` twice only in combinations that panic; `hs` excludes them) -/
theorem deriveListB_table : ∀ bv bh en se hs rts : Bool,
    TableOk bv bh en se hs rts (deriveListB bv bh en se rts hs) := by
  decide

/-- **C09** (per struct): every struct `rustStruct` emits obeys the decision table, with
`hs` = membership in the closure of the module-scope variable types and `rts` = last member is a
runtime-sized array. -/
theorem C09_rustStruct {m : Module} {o : Options} {gvt : List Nat} {h : Nat} {t : Ty}
    {all : List Member} {s : RStruct} (hs : rustStruct m o gvt h t all = .ok s) :
    DerivesOk o (gvt.contains h)
      (structHasRtsArrayMember m (all.filter fun mem => !isBuiltinMember mem)) s := by
  obtain ⟨name, fields, offs, _, _, _, _, _, _, e⟩ := rustStruct_ok hs
  subst e
  obtain ⟨a, b, c, d, e, f, g, i, j⟩ := deriveListB_table o.bmVertex o.bmHost o.encase o.serde
    (gvt.contains h) (structHasRtsArrayMember m (all.filter fun mem => !isBuiltinMember mem))
  refine ⟨a, b, rfl, c, d, e, f, g, ?_, i, j⟩
  cases o.bmHost <;> cases gvt.contains h <;> simp

/-- **C09**: every struct in a successfully generated module obeys the decision table. -/
theorem C09 {m : Module} {o : Options} {src : String} {path : Option String} {out : Out}
    (hg : gen m o src path = .ok out) {s : RStruct} (hs : s ∈ out.structs) :
    ∃ hd ty members span, m.types[hd]? = some ty ∧ ty.inner = .struct members span ∧
      ty.name = some s.name ∧
      DerivesOk o ((globalVariableTypes m).contains hd)
        (structHasRtsArrayMember m (members.filter fun mem => !isBuiltinMember mem)) s := by
  have hp := gen_ok hg
  obtain ⟨hd, ty, members, span, hin, _, hi, hr⟩ := structs_mem hp.structs hs
  refine ⟨hd, ty, members, span, mem_indexed.mp hin, hi, ?_, C09_rustStruct hr⟩
  obtain ⟨name, _, _, hn, _, _, _, _, _, e⟩ := rustStruct_ok hr
  rw [e]; exact hn

/-- **C09** (no option changes any other part): two successful generations of the same module
under different options agree on everything except the struct section. -/
theorem C09_noninterference {m : Module} {o o' : Options} {src : String} {path : Option String}
    {out out' : Out} (hg : gen m o src path = .ok out) (hg' : gen m o' src path = .ok out') :
    { out with structs := [] } = { out' with structs := [] } := by
  have a := gen_ok hg
  have b := gen_ok hg'
  obtain ⟨d1, hd1, pg1, bg1⟩ := a.data
  obtain ⟨d2, hd2, pg2, bg2⟩ := b.data
  rw [hd1] at hd2; injection hd2 with hd2; subst hd2
  rw [bg1] at bg2; injection bg2 with bg2
  obtain ⟨p1, hp1, ps1, pr1⟩ := a.push
  obtain ⟨p2, hp2, ps2, pr2⟩ := b.push
  rw [hp1] at hp2; injection hp2 with hp2; subst hp2
  have hv := a.vertex; rw [b.vertex] at hv; injection hv with hv
  have hve := a.vertexEntries; rw [b.vertexEntries] at hve; injection hve with hve
  have hov := a.overrides; rw [b.overrides] at hov; injection hov with hov
  have hgr : out.groups = out'.groups := (Prod.mk.inj bg2).1
  have hbm : out.bindModule = out'.bindModule := (Prod.mk.inj bg2).2
  cases out; cases out'
  simp only [Out.mk.injEq, true_and]
  simp only at hgr hbm hv hve hov
  refine ⟨?_, hov.symm, hgr, hbm, hv.symm, ?_, hve.symm, ?_, ?_, ?_, ?_, ?_, ?_, ?_, ?_⟩
  · exact a.consts.trans b.consts.symm
  · exact a.entryConsts.trans b.entryConsts.symm
  · exact a.fragmentEntries.trans b.fragmentEntries.symm
  · exact a.compute.trans b.compute.symm
  · exact a.source.trans b.source.symm
  · exact ps1.trans ps2.symm
  · exact pg1.trans pg2.symm
  · exact pr1.trans pr2.symm
  · exact a.boiler.trans b.boiler.symm
  · exact a.unknown.trans b.unknown.symm

/-- **C09** (documented panics): `rustStruct` fails with the runtime-array panics exactly in the
documented combinations (given that its fields can be typed). -/
theorem C09_panics {m : Module} {o : Options} {gvt : List Nat} {h : Nat} {t : Ty} {all : List Member}
    {name : String} {fields : List RField}
    (hn : t.name = some name)
    (hnames : ∀ mem ∈ all.filter (fun mem => !isBuiltinMember mem), mem.name.isSome = true)
    (hf : structMembers m o (all.filter fun mem => !isBuiltinMember mem) = .ok fields) :
    (∃ tag, rustStruct m o gvt h t all = .error (.panic tag)) ↔
      (structHasRtsArrayMember m (all.filter fun mem => !isBuiltinMember mem) = true ∧
        (o.encase = false ∨ (o.bmVertex = true ∧ gvt.contains h = false) ∨
          (o.bmHost = true ∧ gvt.contains h = true))) := by
  have hoffs : ∃ offs, (all.filter fun mem => !isBuiltinMember mem).mapM (fun mem => do
        let n ← unwrapName "member-name" mem.name
        pure (RAssert.offset name n mem.offset ("offset of " ++ name ++ "." ++ n ++ " does not match WGSL")))
        = .ok offs := by
    generalize all.filter (fun mem => !isBuiltinMember mem) = ms at hnames
    induction ms with
    | nil => exact ⟨[], rfl⟩
    | cons x xs ih =>
      obtain ⟨offs, ho⟩ := ih (fun y hy => hnames y (by simp [hy]))
      have hx := hnames x (by simp)
      cases hxn : x.name with
      | none => rw [hxn] at hx; cases hx
      | some n =>
        refine ⟨RAssert.offset name n x.offset ("offset of " ++ name ++ "." ++ n ++ " does not match WGSL") :: offs, ?_⟩
        rw [List.mapM_cons, ho]
        simp [hxn, unwrapName, bind, Except.bind, pure, Except.pure]
  obtain ⟨offs, ho⟩ := hoffs
  unfold rustStruct
  have hsn : unwrapName "struct-name" t.name = .ok name := by simp [unwrapName, hn]
  simp only [bind, Except.bind, hsn] at ho ⊢
  simp only [ho, hf]
  generalize structHasRtsArrayMember m (all.filter fun mem => !isBuiltinMember mem) = r
  generalize gvt.contains h = hb
  generalize o.encase = en
  generalize o.bmVertex = bv
  generalize o.bmHost = bh
  cases r <;> cases hb <;> cases en <;> cases bv <;> cases bh <;> simp [pure, Except.pure]

end WgslVerif
