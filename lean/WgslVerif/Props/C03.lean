import WgslVerif.Lemmas.StagesEntry
/-
C03 – Binding visibility equals exactly the stages that statically use it.

Specification side (independent of the traversal): `Occurs`/`CallsFn` (a call statement
anywhere in the body – all block-carrying statement kinds – or a call result among the
expressions), `ReachS` (reflexive-transitive closure over arena functions), `UsesFn`
(an expression naming the variable), `StaticallyUses`.
-/
namespace WgslVerif

/-- spec-level reachability between arena functions -/
inductive ReachS (m : Module) : Nat → Nat → Prop
  | refl (n) : ReachS m n n
  | step {a b c f} : m.functions[a]? = some f → CallsFn f b → ReachS m b c → ReachS m a c

/-- entry point `e` statically accesses the variable named `n`: directly, or through any chain
of function calls -/
def StaticallyUses (m : Module) (e : EntryPoint) (n : String) : Prop :=
  UsesFn m e.fn n ∨
  ∃ h, CallsFn e.fn h ∧ ∃ x f, ReachS m h x ∧ m.functions[x]? = some f ∧ UsesFn m f n

theorem reach_iff_reachS (m : Module) (a c : Nat) : Reach m a c ↔ ReachS m a c := by
  constructor
  · intro h
    induction h with
    | refl => exact .refl _
    | @step a b c hs _ ih =>
      unfold succOf at hs
      cases hf : m.functions[a]? with
      | none => rw [hf] at hs; cases hs
      | some f =>
        rw [hf] at hs
        exact .step hf ((mem_callsOf_evFn m f b).mp hs) ih
  · intro h
    induction h with
    | refl => exact .refl _
    | @step a b c f hf hc _ ih =>
      refine .step ?_ ih
      unfold succOf; rw [hf]
      exact (mem_callsOf_evFn m f b).mpr hc

theorem entryUses_iff (m : Module) (e : EntryPoint) (n : String) :
    EntryUses m e n ↔ StaticallyUses m e n := by
  unfold EntryUses StaticallyUses UsesH
  rw [mem_usesOf_evFn]
  constructor
  · rintro (h | ⟨s, hs, x, hr, f, hf, hu⟩)
    · exact Or.inl h
    · exact Or.inr ⟨s, (mem_callsOf_evFn m e.fn s).mp hs, x, f, (reach_iff_reachS m s x).mp hr, hf,
        (mem_usesOf_evFn m f n).mp hu⟩
  · rintro (h | ⟨s, hs, x, f, hr, hf, hu⟩)
    · exact Or.inl h
    · exact Or.inr ⟨s, (mem_callsOf_evFn m e.fn s).mpr hs, x, (reach_iff_reachS m s x).mpr hr, f, hf,
        (mem_usesOf_evFn m f n).mpr hu⟩

/-- **C03**: the stage set computed for variable `n` contains stage `g` iff some entry point of
stage `g` statically uses `n`. No using stage is missing, no unused stage is added. -/
theorem C03_visibility (m : Module) (hv : CallsEarlier m) (n : String) (g : Stage) :
    ((globalShaderStages m).getD n).has g = true ↔
      ∃ e ∈ m.entries, e.stage = g ∧ StaticallyUses m e n := by
  have h := (entries_fold_spec m hv m.entries (fun _ h => h)
    { stages := [], visited := [], fnVisits := 0, stmtVisits := 0 }).1 n g
  unfold globalShaderStages globalShaderStagesSt
  rw [h]
  simp only [StageMap.getD, StageMap.get?, Option.getD_none, Stages.has_none, Bool.false_eq_true,
    false_or]
  constructor
  · rintro ⟨e, he, hs, hu⟩; exact ⟨e, he, hs, (entryUses_iff m e n).mp hu⟩
  · rintro ⟨e, he, hs, hu⟩; exact ⟨e, he, hs, (entryUses_iff m e n).mpr hu⟩

/-- **C03** (absence): the map has an entry for `n` iff some entry point statically uses it; so a
binding no entry point reaches falls back to `NONE`, and an unused push constant to the
entry-stage fallback. -/
theorem C03_present (m : Module) (hv : CallsEarlier m) (n : String) :
    ((globalShaderStages m).get? n).isSome = true ↔
      ∃ e ∈ m.entries, StaticallyUses m e n := by
  have h := (entries_fold_spec m hv m.entries (fun _ h => h)
    { stages := [], visited := [], fnVisits := 0, stmtVisits := 0 }).2.1 n
  unfold globalShaderStages globalShaderStagesSt
  rw [h]
  simp only [StageMap.get?, Option.isSome_none, Bool.false_eq_true, false_or]
  constructor
  · rintro ⟨e, he, hu⟩; exact ⟨e, he, (entryUses_iff m e n).mp hu⟩
  · rintro ⟨e, he, hu⟩; exact ⟨e, he, (entryUses_iff m e n).mpr hu⟩

/-- A binding nobody reaches gets the empty stage set. -/
theorem C03_unreached_none (m : Module) (hv : CallsEarlier m) (n : String)
    (h : ¬ ∃ e ∈ m.entries, StaticallyUses m e n) : (globalShaderStages m).getD n = Stages.none := by
  have hp := C03_present m hv n
  unfold StageMap.getD
  cases hg : (globalShaderStages m).get? n with
  | none => rfl
  | some s => rw [hg] at hp; exact absurd (hp.mp rfl) h

/-- `entry_stages` is the set of stages that have an entry point. -/
theorem C03_entryStages (m : Module) (g : Stage) :
    (entryStages m).has g = true ↔ ∃ e ∈ m.entries, e.stage = g := by
  unfold entryStages
  have : ∀ (es : List EntryPoint) (s : Stages),
      (es.foldl (fun s e => s.union (Stages.ofStage e.stage)) s).has g = true ↔
        (s.has g = true ∨ ∃ e ∈ es, e.stage = g) := by
    intro es
    induction es with
    | nil => intro s; simp
    | cons e es ih =>
      intro s
      simp only [List.foldl_cons, ih, Stages.has_union, Bool.or_eq_true, Stages.has_ofStage,
        List.mem_cons]
      constructor
      · rintro ((h | h) | ⟨x, hx, h⟩)
        · exact Or.inl h
        · exact Or.inr ⟨e, Or.inl rfl, h⟩
        · exact Or.inr ⟨x, Or.inr hx, h⟩
      · rintro (h | ⟨x, (rfl | hx), h⟩)
        · exact Or.inl (Or.inl h)
        · exact Or.inl (Or.inr h)
        · exact Or.inr ⟨x, hx, h⟩
  rw [this]
  simp [Stages.has_none]

/-! ### executable hypothesis check and non-vacuity -/

/-- executable form of `CallsEarlier` (evaluated on every module the harness dumps) -/
def callsEarlierB (m : Module) : Bool :=
  (List.range m.functions.length).all (fun h => (succOf m h).all (· < h)) &&
  m.entries.all (fun e => (callsOf (evFn m e.fn)).all (· < m.functions.length))

theorem callsEarlierB_sound (m : Module) (h : callsEarlierB m = true) : CallsEarlier m := by
  simp only [callsEarlierB, Bool.and_eq_true, List.all_eq_true, List.mem_range,
    decide_eq_true_eq] at h
  refine ⟨fun a s hs => ?_, fun e he s hs => h.2 e he s hs⟩
  by_cases ha : a < m.functions.length
  · exact h.1 a ha s hs
  · have : m.functions[a]? = none := List.getElem?_eq_none (by omega)
    simp [succOf, this] at hs

private def fnLeaf : Fn :=
  { name := some "leaf", args := [], result := none, body := [], exprs := [.global 0] }
private def fnMid : Fn :=
  { name := some "mid", args := [], result := none,
    body := [.loop [] [.ifs [] [.call 0 false]]], exprs := [] }
private def fnVs : Fn :=
  { name := some "vs", args := [], result := none, body := [], exprs := [.callResult 1] }
private def fnCs : Fn :=
  { name := some "cs", args := [], result := none, body := [], exprs := [.global 1] }
private def demo : Module :=
  { types := [], consts := [], overrides := [],
    globals := [{ name := some "buf", space := .uniform, binding := some (0, 0), ty := 0 },
                { name := some "other", space := .uniform, binding := some (0, 1), ty := 0 }],
    functions := [fnLeaf, fnMid],
    entries := [{ name := "vs", upper := "VS", stage := .vertex, wg := (0, 0, 0), fn := fnVs },
                { name := "cs", upper := "CS", stage := .compute, wg := (1, 1, 1), fn := fnCs }] }

example : callsEarlierB demo = true := by decide
example : (globalShaderStages demo).getD "buf" = ⟨true, false, false⟩ := by decide
example : (globalShaderStages demo).getD "other" = ⟨false, false, true⟩ := by decide

end WgslVerif
