import WgslVerif.Lemmas.Gen
import WgslVerif.Ext.RustLex
/-
C16 – Embedded shader source is byte-identical to the input.

Partial: that prettyplease / rustfmt do not alter literal tokens is behaviour of external
programs; it is checked per case by reading the literal back from the real (formatted and
unformatted) output and unescaping it with `RustLex.unescapeToken`.
-/
namespace WgslVerif
open RustLex

/-- what the property prescribes for the `SOURCE` constant and its consumer -/
def C16Ok (src : String) (path : Option String) (out : Out) : Prop :=
  (match path, out.source with
    | some p, .includeStr p' => p' = p
    | none, .literal v raw => v = src ∧ (raw = "" ∨ unescapeToken raw = some src)
    | _, _ => False) ∧
  ("fn:create_shader_module", createShaderModuleText) ∈ out.boiler

instance (src : String) (path : Option String) (out : Out) : Decidable (C16Ok src path out) := by
  unfold C16Ok
  cases path <;> cases out.source <;> infer_instance

/-- **C16** (the literal token): however the characters of the source are escaped – verbatim where
the Rust lexer allows it, or by any of their legal escapes – the literal evaluates to exactly the
source, for every source string. -/
theorem C16_literal_roundtrip (src : String) (body : List Char) (h : EscOf src.toList body) :
    unescapeToken (String.ofList ('"' :: body ++ ['"'])) = some src := by
  unfold unescapeToken
  have h1 : (String.ofList ('"' :: body ++ ['"'])).toList = '"' :: (body ++ ['"']) := by
    simp [String.toList_ofList]
  rw [h1]
  simp only [List.reverse_append, List.reverse_cons, List.reverse_nil, List.nil_append,
    List.singleton_append, List.reverse_reverse]
  rw [unesc_of_esc h]
  simp [String.ofList_toList]

/-- **C16** (model): with an include path the constant is `include_str!` of exactly that path;
without, it is a literal whose value is the source; `create_shader_module` is the fixed template
that hands `Cow::Borrowed(SOURCE)` to the device as `ShaderSource::Wgsl`. -/
theorem C16 {m : Module} {o : Options} {src : String} {path : Option String} {out : Out}
    (hg : gen m o src path = .ok out) : C16Ok src path out := by
  have hp := gen_ok hg
  unfold C16Ok
  rw [hp.source, hp.boiler]
  refine ⟨?_, by simp⟩
  cases path with
  | none => exact ⟨rfl, Or.inl rfl⟩
  | some p => rfl

/-- **C16** (include variant differs only in `SOURCE`): same module and options, with and
without an include path, give outputs that agree on everything except the source constant. -/
theorem C16_include_only_source {m : Module} {o : Options} {src : String} {p : String} {out out' : Out}
    (hg : gen m o src none = .ok out) (hg' : gen m o src (some p) = .ok out') :
    { out with source := .includeStr p } = out' := by
  have a := gen_ok hg
  have b := gen_ok hg'
  obtain ⟨d1, hd1, pg1, bg1⟩ := a.data
  obtain ⟨d2, hd2, pg2, bg2⟩ := b.data
  rw [hd1] at hd2; injection hd2 with hd2; subst hd2
  rw [bg1] at bg2; injection bg2 with bg2
  obtain ⟨p1, hp1, ps1, pr1⟩ := a.push
  obtain ⟨p2, hp2, ps2, pr2⟩ := b.push
  rw [hp1] at hp2; injection hp2 with hp2; subst hp2
  have hs := a.structs; rw [b.structs] at hs; injection hs with hs
  have hv := a.vertex; rw [b.vertex] at hv; injection hv with hv
  have hve := a.vertexEntries; rw [b.vertexEntries] at hve; injection hve with hve
  have hov := a.overrides; rw [b.overrides] at hov; injection hov with hov
  have hgr : out.groups = out'.groups := (Prod.mk.inj bg2).1
  have hbm : out.bindModule = out'.bindModule := (Prod.mk.inj bg2).2
  have hsrc := b.source
  cases out; cases out'
  simp only [Out.mk.injEq]
  simp only at hgr hbm hv hve hov hs hsrc
  refine ⟨hs.symm, ?_, hov.symm, hgr, hbm, hv.symm, ?_, hve.symm, ?_, ?_, ?_, ?_, ?_, ?_, ?_, ?_⟩
  · exact a.consts.trans b.consts.symm
  · exact a.entryConsts.trans b.entryConsts.symm
  · exact a.fragmentEntries.trans b.fragmentEntries.symm
  · exact a.compute.trans b.compute.symm
  · exact hsrc.symm
  · exact ps1.trans ps2.symm
  · exact pg1.trans pg2.symm
  · exact pr1.trans pr2.symm
  · exact a.boiler.trans b.boiler.symm
  · exact a.unknown.trans b.unknown.symm

/-! ### Non-vacuity: an escaped literal with every escape form -/
example : unescapeToken "\"a\\n\\\"b\\\\ \\u{1f600}\\x41\\0\"" = some "a\n\"b\\ 😀A\x00" := by decide

example : EscOf "a\nb".toList ['a', '\\', 'n', 'b'] :=
  .cons (.verbatim 'a' (by decide) (by decide) (by decide))
    (.cons .nl (.cons (.verbatim 'b' (by decide) (by decide) (by decide)) .nil))

end WgslVerif
