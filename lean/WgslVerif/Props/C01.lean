import WgslVerif.Lemmas.Gen
import WgslVerif.Props.C04
import WgslVerif.Props.C08
/-
C01 – Generated module is complete Rust that compiles against wgpu 24.

Partial: "rustc accepts" is decided by rustc (harness `batch check`).  The theorems below carry
the fragments of the emitted program's static semantics that are logic of the generator:
identifier legality on the prettyplease path, pairwise distinctness of the generated item names,
and resolution of nested struct references.  The classes of shaders for which the property is
violated on the current tree are recorded findings (known_findings.json, C01).
-/
namespace WgslVerif

/-- **C01** (identifiers): when generation returns `Ok` through the prettyplease path
(`rustfmt = false`), no WGSL-derived name emitted as a bare identifier is a Rust keyword
(such shaders make `syn::parse_file(..).unwrap()` panic instead – a recorded finding). -/
theorem C01_no_keyword_idents {m : Module} {o : Options} {src : String} {path : Option String} {out : Out}
    (hg : gen m o src path = .ok out) (hr : o.rustfmt = false) :
    ∀ n ∈ emittedIdents out, n ∉ rustKeywords := by
  have hp := gen_ok hg
  intro n hn hk
  apply hp.keywords
  refine ⟨hr, ?_⟩
  simp only [List.any_eq_true, List.contains_iff_mem]
  exact ⟨n, hn, hk⟩

/-- **C01** (`ENTRY_*`): if upper-casing is injective on the entry point names of the shader, the
exported `ENTRY_*` constants are pairwise distinct items. (Entry names differing only in case
violate the premise – a recorded finding.) -/
theorem C01_entry_consts_distinct {m : Module} {o : Options} {src : String} {path : Option String} {out : Out}
    (hg : gen m o src path = .ok out) (hinj : (m.entries.map (·.upper)).Nodup) :
    (out.entryConsts.map (·.1)).Nodup := by
  have hp := gen_ok hg
  rw [hp.entryConsts]
  unfold entryPointConstants
  simp only [List.map_map, Function.comp_def]
  have : (m.entries.map fun e => "ENTRY_" ++ e.upper) = (m.entries.map (·.upper)).map ("ENTRY_" ++ ·) := by
    simp [List.map_map, Function.comp_def]
  rw [this]
  generalize m.entries.map (·.upper) = l at hinj
  induction l with
  | nil => simp
  | cons x xs ih =>
    rw [List.map_cons, List.nodup_cons]
    rw [List.nodup_cons] at hinj
    refine ⟨?_, ih hinj.2⟩
    intro hmem
    obtain ⟨y, hy, hxy⟩ := List.mem_map.mp hmem
    have hxy' : y = x := by
      have h1 : ("ENTRY_" ++ y).toList = ("ENTRY_" ++ x).toList := by rw [hxy]
      simp only [String.toList_append] at h1
      have h2 := List.append_cancel_left h1
      exact String.toList_inj.mp h2
    exact hinj.1 (hxy' ▸ hy)

/-- **C01** (`bind_groups` items): `BindGroupN`, `BindGroupLayoutN`, `LAYOUT_DESCRIPTORN` are
emitted for pairwise different `N`. -/
theorem C01_group_items_distinct {m : Module} {o : Options} {src : String} {path : Option String} {out : Out}
    (hg : gen m o src path = .ok out) : (out.groups.map (·.no)).Nodup := by
  have h := (C04 hg).numbering
  rw [h]
  exact List.nodup_range

/-- **C01** (user structs): no struct item is emitted twice. -/
theorem C01_struct_items_distinct {m : Module} {o : Options} {src : String} {path : Option String} {out : Out}
    (ha : TypeArenaOk m) (hg : gen m o src path = .ok out) : (out.structs.map (·.name)).Nodup :=
  C08_nodup ha hg

/-- **C01** (references resolve): a struct type nested (as member, or array element of a member)
in a host-visible-through-a-variable struct is itself reachable from that variable, hence
emitted – a field of type `Inner` / `[Inner; N]` always finds its `pub struct Inner`. -/
theorem C01_nested_struct_emitted {m : Module} {o : Options} {src : String} {path : Option String} {out : Out}
    (ha : TypeArenaOk m) (hg : gen m o src path = .ok out)
    (outer inner : Nat) (ti : Ty) (ms : List Member) (sp : Nat) (n : String)
    (houter : ∃ g ∈ m.globals, TyReach m g.ty outer)
    (hreach : TyReach m outer inner)
    (hti : m.types[inner]? = some ti) (hst : ti.inner = .struct ms sp) (hn : ti.name = some n) :
    n ∈ out.structs.map (·.name) := by
  rw [C08_mem ha hg n]
  obtain ⟨g, hgm, hr⟩ := houter
  exact ⟨inner, ti, ms, sp, hti, hst, hn, Or.inl ⟨g, hgm, TyReach.trans hr hreach⟩⟩

end WgslVerif
