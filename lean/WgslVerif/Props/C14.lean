import WgslVerif.Lemmas.Gen
/-
C14 – Entry point metadata matches the shader's entry points.
-/
namespace WgslVerif

def locationOf (b : Option Binding) : Option Nat :=
  match b with
  | some (.location l) => some l
  | _ => none

/-- number of colour targets needed to address every `@location` the function writes:
one more than the largest location, 0 when it writes none -/
def targetsNeeded (m : Module) (f : Fn) : Nat :=
  match f.result with
  | none => 0
  | some (ty, b) =>
    match b with
    | some (.location l) => l + 1
    | some (.builtin _) => 0
    | none =>
      match m.types[ty]? with
      | some t =>
        match t.inner with
        | .struct members _ => (members.filterMap fun mem => locationOf mem.binding).foldl (fun a l => max a (l + 1)) 0
        | _ => 0
      | none => 0

/-- number of struct parameters of an entry point (arguments without a binding whose type is a struct) -/
def structParamCount (m : Module) (e : EntryPoint) : Nat :=
  ((e.fn.args.filter fun a => a.2.isNone).filter fun a =>
    match m.types[a.1]? with
    | some t => match t.inner with | .struct .. => true | _ => false
    | none => false).length

theorem structParamCount_def (m : Module) (e : EntryPoint) :
    structParamCount m e = ((e.fn.args.filter fun a => a.2.isNone).filter (fun a =>
      match m.types[a.1]? with
      | some t => match t.inner with | .struct .. => true | _ => false
      | none => false)).length := rfl

structure C14Ok (m : Module) (out : Out) : Prop where
  /-- every entry point's exact WGSL name is exported as `ENTRY_<UPPER>` -/
  consts : out.entryConsts = m.entries.map fun e => ("ENTRY_" ++ e.upper, e.name)
  /-- compute: workgroup-size constant (missing dimensions are 1 in naga's IR) and a pipeline
  constructor targeting the entry by its exact name -/
  compute : out.compute = (m.entries.filter fun e => e.stage == .compute).flatMap fun e =>
    [RCompute.wg (e.upper ++ "_WORKGROUP_SIZE") e.wg.1 e.wg.2.1 e.wg.2.2,
     RCompute.pipeline ("create_" ++ e.name ++ "_pipeline") ("Compute Pipeline " ++ e.name) e.name]
  /-- fragment helpers: own `ENTRY_*` constant and as many targets as needed -/
  fragment : out.fragmentEntries.map (fun f => (f.fnName, f.entryConst, f.n)) =
    (m.entries.filter fun e => e.stage == .fragment).map fun e =>
      (e.name ++ "_entry", "ENTRY_" ++ e.upper, targetsNeeded m e.fn)
  /-- vertex helpers: own constant, buffer count = number of struct parameters -/
  vertex : out.vertexEntries.map (fun v => (v.fnName, v.entryConst, v.n, v.buffers.length)) =
    (m.entries.filter fun e => e.stage == .vertex).map fun e =>
      (e.name ++ "_entry", "ENTRY_" ++ e.upper, structParamCount m e, structParamCount m e)
  /-- `vertex_state` / `fragment_state` forward module, entry point, buffers/targets, constants -/
  forwarders : out.boiler = entryBoiler m ++ [("fn:create_shader_module", createShaderModuleText)]

instance (m : Module) (out : Out) : Decidable (C14Ok m out) :=
  decidable_of_iff
    ((out.entryConsts = m.entries.map fun e => ("ENTRY_" ++ e.upper, e.name)) ∧
     (out.compute = (m.entries.filter fun e => e.stage == .compute).flatMap fun e =>
        [RCompute.wg (e.upper ++ "_WORKGROUP_SIZE") e.wg.1 e.wg.2.1 e.wg.2.2,
         RCompute.pipeline ("create_" ++ e.name ++ "_pipeline") ("Compute Pipeline " ++ e.name) e.name]) ∧
     (out.fragmentEntries.map (fun f => (f.fnName, f.entryConst, f.n)) =
        (m.entries.filter fun e => e.stage == .fragment).map fun e =>
          (e.name ++ "_entry", "ENTRY_" ++ e.upper, targetsNeeded m e.fn)) ∧
     (out.vertexEntries.map (fun v => (v.fnName, v.entryConst, v.n, v.buffers.length)) =
        (m.entries.filter fun e => e.stage == .vertex).map fun e =>
          (e.name ++ "_entry", "ENTRY_" ++ e.upper, structParamCount m e, structParamCount m e)) ∧
     (out.boiler = entryBoiler m ++ [("fn:create_shader_module", createShaderModuleText)]))
    ⟨fun ⟨a, b, c, d, e⟩ => ⟨a, b, c, d, e⟩, fun ⟨a, b, c, d, e⟩ => ⟨a, b, c, d, e⟩⟩

def isStructArg (m : Module) (a : Nat × Option Binding) : Bool :=
  match m.types[a.1]? with
  | some t => match t.inner with | .struct .. => true | _ => false
  | none => false

theorem vertexInputOf_isSome {m : Module} {a : Nat × Option Binding} {ob : Option VertexInput}
    (h : vertexInputOf m a = .ok ob) : ob.isSome = isStructArg m a := by
  unfold vertexInputOf at h
  unfold isStructArg
  cases hty : m.types[a.1]? with
  | none => rw [hty] at h; cases h
  | some t =>
    rw [hty] at h
    simp only at h ⊢
    split at h
    · rename_i members span hi
      obtain ⟨name, _, h⟩ := Except.bind_ok h
      obtain ⟨fields, _, h⟩ := Except.bind_ok h
      injection h with h; subst h
      simp [hi]
    · rename_i hne
      injection h with h; subst h
      cases hi : t.inner <;> first | rfl | (exact absurd hi (hne _ _))

theorem vertexEntryStructs_length {m : Module} {e : EntryPoint} {inputs : List VertexInput}
    (h : vertexEntryStructs m e = .ok inputs) : inputs.length = structParamCount m e := by
  unfold vertexEntryStructs at h
  exact filterMapM_ok_length h (fun a _ ob hob => vertexInputOf_isSome hob)

theorem foldl_max_map (l : List Nat) (a : Nat) :
    (l.map (· + 1)).foldl max a = l.foldl (fun a l => max a (l + 1)) a := by
  induction l generalizing a with
  | nil => rfl
  | cons x xs ih => simp only [List.map_cons, List.foldl_cons, ih]

/-- the emitted target count is the number of targets needed -/
theorem fragmentTargetCount_eq (m : Module) (f : Fn) : fragmentTargetCount m f = targetsNeeded m f := by
  unfold fragmentTargetCount targetsNeeded
  cases f.result with
  | none => rfl
  | some r =>
    obtain ⟨ty, b⟩ := r
    simp only
    cases b with
    | some bb => cases bb <;> rfl
    | none =>
      simp only
      cases m.types[ty]? with
      | none => rfl
      | some t =>
        simp only
        cases t.inner <;> try rfl
        rename_i members span
        simp only
        rw [← foldl_max_map]
        congr 1
        induction members with
        | nil => rfl
        | cons x xs ih =>
          simp only [List.filterMap_cons]
          cases hb : x.binding with
          | none => simp [locationOf, ih]
          | some bb => cases bb <;> simp [locationOf, ih]

/-- **C14** -/
theorem C14 {m : Module} {o : Options} {src : String} {path : Option String} {out : Out}
    (hg : gen m o src path = .ok out) : C14Ok m out := by
  have hp := gen_ok hg
  refine ⟨hp.entryConsts, hp.compute, ?_, ?_, hp.boiler⟩
  · rw [hp.fragmentEntries]; unfold fragmentEntries
    simp [List.map_map, Function.comp_def, fragmentTargetCount_eq]
  · have hv := hp.vertexEntries
    unfold vertexEntries at hv
    refine mapM_ok_map_eq hv (fun e _ v hve => ?_)
    obtain ⟨inputs, hin, hve⟩ := Except.bind_ok hve
    injection hve with hve; subst hve
    simp [vertexEntryStructs_length hin]

/-- The finding this check made (repaired in /repo by "fix: size fragment targets by the largest
@location…"): the code before the repair *counted* the located members. -/
def Legacy.fragmentTargetCount (members : List Member) : Nat :=
  (members.filter fun mem => match mem.binding with
    | some (.location _) => true
    | _ => false).length

/-- a fragment entry writing only `@location(2)` got one target slot although three are needed -/
theorem C14_legacy_counterexample :
    let members : List Member := [⟨some "c", 1, some (.location 2), 0⟩]
    let m : Module :=
      { types := [{ name := some "O", inner := .struct members 16, size := 16, laySize := 16, layAlign := 16, snake := "o" }],
        globals := [], consts := [], overrides := [], functions := [], entries := [] }
    let f : Fn := { name := none, args := [], result := some (0, none), body := [], exprs := [] }
    Legacy.fragmentTargetCount members = 1 ∧ targetsNeeded m f = 3 := by decide

end WgslVerif
