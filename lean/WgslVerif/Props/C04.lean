import WgslVerif.Lemmas.Gen
import WgslVerif.Props.C11
/-
C04 – Named bind group fields reach their own slot; groups bind at own index.

The specification talks about the WGSL variables of group `N` in declaration order
(`varsOf m N` = the bound variables filtered by `@group`), never about the sorted map.
-/
namespace WgslVerif
open C11

/-- the WGSL resource variables declared with `@group(no)`, in declaration order -/
def varsOf (m : Module) (no : Nat) : List GroupBinding := (boundGlobals m).filter (·.group = no)

/-- resource kind of a variable: buffer binding, texture view or sampler -/
def resKindOf (m : Module) (v : GroupBinding) : Option ResKind :=
  match m.types[v.ty]? with
  | some t =>
    match bindClass t with
    | .buffer => some .buffer
    | .image => some .texture
    | .sampler => some .sampler
    | .unsupported => none
  | none => none

def ctorOfKind : ResKind → ResCtor
  | .buffer => .buffer | .texture => .textureView | .sampler => .sampler

/-- what the property demands of the code emitted for one group -/
structure GroupOk (m : Module) (g : RGroup) : Prop where
  /-- exactly one field per variable of the group, named after it, typed by resource kind -/
  fields : g.layoutFields.map (fun f => (some f.1, some f.2)) =
    (varsOf m g.no).map (fun v => (v.name, resKindOf m v))
  /-- field `x` is passed to the `@binding` index of variable `x`, with the matching constructor -/
  bind : g.bindEntries.map (fun e => (e.binding, some e.ctor, some e.field)) =
    (varsOf m g.no).map (fun v => (v.binding, (resKindOf m v).map ctorOfKind, v.name))
  /-- the layout has exactly the binding indices present in the group -/
  layoutIndices : g.entries.map (·.binding) = (varsOf m g.no).map (·.binding)
  /-- `get_bind_group_layout`, `from_bindings` and `set` all refer to group `no` itself -/
  wiring : g.layoutFnDesc = g.no ∧ g.fromLayoutStruct = g.no ∧ g.fromDesc = g.no ∧ g.setIndex = g.no
  nonempty : varsOf m g.no ≠ []

instance (m : Module) (g : RGroup) : Decidable (GroupOk m g) :=
  decidable_of_iff
    ((g.layoutFields.map (fun f => (some f.1, some f.2)) =
        (varsOf m g.no).map (fun v => (v.name, resKindOf m v))) ∧
     (g.bindEntries.map (fun e => (e.binding, some e.ctor, some e.field)) =
        (varsOf m g.no).map (fun v => (v.binding, (resKindOf m v).map ctorOfKind, v.name))) ∧
     (g.entries.map (·.binding) = (varsOf m g.no).map (·.binding)) ∧
     (g.layoutFnDesc = g.no ∧ g.fromLayoutStruct = g.no ∧ g.fromDesc = g.no ∧ g.setIndex = g.no) ∧
     varsOf m g.no ≠ [])
    ⟨fun ⟨a, b, c, d, e⟩ => ⟨a, b, c, d, e⟩, fun ⟨a, b, c, d, e⟩ => ⟨a, b, c, d, e⟩⟩

/-- setting all groups: each group once, at its own index, in index order, on all three pass kinds -/
structure SetAllOk (nos : List Nat) (bm : RBindModule) : Prop where
  setCalls : bm.setCalls = nos
  setParams : bm.setParams = nos.map fun k => (k, k)
  bgFields : bm.bgFields = nos.map fun k => (k, k)
  bgSet : bm.bgSet = nos
  passes : bm.passImpls.map (·.target) =
      ["wgpu :: ComputePass < '_ >", "wgpu :: RenderPass < '_ >", "wgpu :: RenderBundleEncoder < '_ >"] ∧
    ∀ p ∈ bm.passImpls, p.args = ["index", "bind_group", "offsets"]

instance (nos : List Nat) (bm : RBindModule) : Decidable (SetAllOk nos bm) :=
  decidable_of_iff
    (bm.setCalls = nos ∧ bm.setParams = (nos.map fun k => (k, k)) ∧ bm.bgFields = (nos.map fun k => (k, k)) ∧
      bm.bgSet = nos ∧
      (bm.passImpls.map (·.target) =
        ["wgpu :: ComputePass < '_ >", "wgpu :: RenderPass < '_ >", "wgpu :: RenderBundleEncoder < '_ >"] ∧
       ∀ p ∈ bm.passImpls, p.args = ["index", "bind_group", "offsets"]))
    ⟨fun ⟨a, b, c, d, e⟩ => ⟨a, b, c, d, e⟩, fun ⟨a, b, c, d, e⟩ => ⟨a, b, c, d, e⟩⟩

/-- the `bind_groups` module (and `set_bind_groups`) exists iff there is a group, and sets them all -/
def BindModuleOk (groups : List RGroup) : Option RBindModule → Prop
  | some bm => SetAllOk (groups.map (·.no)) bm ∧ groups ≠ []
  | none => groups = []

instance (groups : List RGroup) (bm : Option RBindModule) : Decidable (BindModuleOk groups bm) := by
  cases bm <;> unfold BindModuleOk <;> infer_instance

/-- the whole property for one output -/
structure C04Ok (m : Module) (out : Out) : Prop where
  /-- groups are numbered `0..n-1` in order, with `n` = number of distinct `@group` indices -/
  numbering : out.groups.map (·.no) = List.range (groupCount (boundGlobals m))
  groups : ∀ g ∈ out.groups, GroupOk m g
  /-- the pipeline layout lists the group layouts in index order -/
  pipeline : out.pipelineGroups = out.groups.map (·.no)
  setAll : BindModuleOk out.groups out.bindModule

instance (m : Module) (out : Out) : Decidable (C04Ok m out) :=
  decidable_of_iff
    ((out.groups.map (·.no) = List.range (groupCount (boundGlobals m))) ∧
     (∀ g ∈ out.groups, GroupOk m g) ∧ (out.pipelineGroups = out.groups.map (·.no)) ∧
     BindModuleOk out.groups out.bindModule)
    ⟨fun ⟨a, b, c, d⟩ => ⟨a, b, c, d⟩, fun ⟨a, b, c, d⟩ => ⟨a, b, c, d⟩⟩

/-! ### proofs -/

theorem layoutFields_spec {m : Module} {bs : List GroupBinding} {lf : List (String × ResKind)}
    (h : layoutFields m bs = .ok lf) :
    lf.map (fun f => (some f.1, some f.2)) = bs.map (fun v => (v.name, resKindOf m v)) := by
  unfold layoutFields at h
  refine mapM_ok_map_eq h (fun b _ f hf => ?_)
  obtain ⟨name, hn, hf⟩ := Except.bind_ok hf
  obtain ⟨ty, hty, hf⟩ := Except.bind_ok hf
  have hname : b.name = some name := by
    unfold unwrapName at hn
    cases hb : b.name with
    | none => rw [hb] at hn; cases hn
    | some n => rw [hb] at hn; injection hn with hn; rw [hn]
  have htyp : m.types[b.ty]? = some ty := by
    unfold bindingTyOf at hty
    cases ht : m.types[b.ty]? with
    | none => rw [ht] at hty; cases hty
    | some t => rw [ht] at hty; injection hty with hty; rw [hty]
  unfold resKindOf
  rw [htyp, hname]
  cases hc : bindClass ty <;> rw [hc] at hf <;> first | (injection hf with hf; subst hf; simp [hc, ctorOfKind]) | cases hf

theorem bindEntries_spec {m : Module} {bs : List GroupBinding} {be : List RBindEntry}
    (h : bindEntries m bs = .ok be) :
    be.map (fun e => (e.binding, some e.ctor, some e.field)) =
      bs.map (fun v => (v.binding, (resKindOf m v).map ctorOfKind, v.name)) := by
  unfold bindEntries at h
  refine mapM_ok_map_eq h (fun b _ f hf => ?_)
  obtain ⟨name, hn, hf⟩ := Except.bind_ok hf
  obtain ⟨ty, hty, hf⟩ := Except.bind_ok hf
  have hname : b.name = some name := by
    unfold unwrapName at hn
    cases hb : b.name with
    | none => rw [hb] at hn; cases hn
    | some n => rw [hb] at hn; injection hn with hn; rw [hn]
  have htyp : m.types[b.ty]? = some ty := by
    unfold bindingTyOf at hty
    cases ht : m.types[b.ty]? with
    | none => rw [ht] at hty; cases hty
    | some t => rw [ht] at hty; injection hty with hty; rw [hty]
  unfold resKindOf
  rw [htyp, hname]
  cases hc : bindClass ty <;> rw [hc] at hf <;> first | (injection hf with hf; subst hf; simp [hc, ctorOfKind]) | cases hf

theorem layoutEntries_binding {m : Module} {gs : StageMap} {bs : List GroupBinding} {es : List REntry}
    (h : bs.mapM (layoutEntry m gs) = .ok es) : es.map (·.binding) = bs.map (·.binding) := by
  refine mapM_ok_map_eq h (fun b _ e he => ?_)
  unfold layoutEntry at he
  obtain ⟨ty, _, he⟩ := Except.bind_ok he
  obtain ⟨bt, _, he⟩ := Except.bind_ok he
  injection he with he; subst he; rfl

theorem groupFacts_spec {m : Module} {gs : StageMap} {no : Nat} {bs : List GroupBinding} {g : RGroup}
    (h : groupFacts m gs no bs = .ok g) :
    g.no = no ∧
    g.layoutFields.map (fun f => (some f.1, some f.2)) = bs.map (fun v => (v.name, resKindOf m v)) ∧
    g.bindEntries.map (fun e => (e.binding, some e.ctor, some e.field)) =
      bs.map (fun v => (v.binding, (resKindOf m v).map ctorOfKind, v.name)) ∧
    g.entries.map (·.binding) = bs.map (·.binding) ∧
    (g.layoutFnDesc = no ∧ g.fromLayoutStruct = no ∧ g.fromDesc = no ∧ g.setIndex = no) := by
  unfold groupFacts at h
  obtain ⟨lf, hlf, h⟩ := Except.bind_ok h
  obtain ⟨ents, hents, h⟩ := Except.bind_ok h
  obtain ⟨bes, hbes, h⟩ := Except.bind_ok h
  injection h with h; subst h
  exact ⟨rfl, layoutFields_spec hlf, bindEntries_spec hbes, layoutEntries_binding hents, rfl, rfl, rfl, rfl⟩

/-- **C04** -/
theorem C04 {m : Module} {o : Options} {src : String} {path : Option String} {out : Out}
    (hg : gen m o src path = .ok out) : C04Ok m out := by
  have hp := gen_ok hg
  obtain ⟨data, hdata, hpg, hbg⟩ := hp.data
  have hcontent := C11_ok_content (boundGlobals m) data hdata
  have hexec : getBindGroupDataOf (boundGlobals m) = specOutcome (boundGlobals m) := C11_exec _
  -- unfold `bind_groups_module`
  unfold bindGroupsModule at hbg
  obtain ⟨groups, hgroups, hbg⟩ := Except.bind_ok hbg
  injection hbg with hbg
  have hgr : out.groups = groups := (Prod.mk.inj hbg).1.symm
  have hbm := (Prod.mk.inj hbg).2
  -- per group facts
  have hper : ∀ g ∈ groups, ∃ kb ∈ data, groupFacts m (globalShaderStages m) kb.1 kb.2 = .ok g :=
    fun g hgm => by
      obtain ⟨kb, hkb, hf⟩ := mapM_ok_mem hgroups g hgm
      exact ⟨kb, hkb, hf⟩
  have hnos : groups.map (·.no) = data.map (·.1) := by
    refine mapM_ok_map_eq hgroups (fun kb _ g hf => ?_)
    exact (groupFacts_spec hf).1
  -- keys are 0..n-1 with n = groupCount
  have hkeys : data.map (·.1) = List.range (groupCount (boundGlobals m)) := by
    have hs : specOutcome (boundGlobals m) = .ok data := by rw [← hexec]; exact hdata
    unfold specOutcome at hs
    split at hs
    · cases hs
    · split at hs
      · injection hs with hs; subst hs
        simp [List.map_map, Function.comp_def]
      · cases hs
  refine ⟨?_, ?_, ?_, ?_⟩
  · rw [hgr, hnos, hkeys]
  · intro g hgm
    rw [hgr] at hgm
    obtain ⟨kb, hkb, hf⟩ := hper g hgm
    obtain ⟨hno, a, b, c, d⟩ := groupFacts_spec hf
    obtain ⟨hl, hne⟩ := hcontent.2.2 kb.1 kb.2 (by cases kb; exact hkb)
    have hv : varsOf m g.no = kb.2 := by rw [hno]; unfold varsOf; exact hl.symm
    exact ⟨by rw [hv]; exact a, by rw [hv]; exact b, by rw [hv]; exact c, by rw [hno]; exact d,
      by rw [hv]; exact hne⟩
  · rw [hpg, hgr, hnos]
  · rw [← hbm, hgr]
    by_cases he : groups.isEmpty = true
    · simp only [he, if_true]
      exact List.isEmpty_iff.mp he
    · simp only [he]
      refine ⟨⟨?_, ?_, ?_, ?_, rfl, ?_⟩, fun h => he (by simp [h])⟩
      · exact hnos.symm
      · rw [hnos]
      · rw [hnos]
      · exact hnos.symm
      · intro p hp'
        simp only [passImplsStd, List.mem_cons, List.not_mem_nil, or_false] at hp'
        rcases hp' with rfl | rfl | rfl <;> rfl

end WgslVerif
