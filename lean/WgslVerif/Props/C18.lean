import WgslVerif.Lemmas.Gen
/-
C18 – Output is a pure function of source and options.

The generator's only unordered container is the `HashSet` of variable types
(`global_variable_types`); the model takes it as a list in ARBITRARY order and the theorem shows
the output does not depend on that order (nor on duplicates) – only on membership.
Everything else is a Lean function of `(m, o, src, path)`, i.e. pure by construction; the tie to
the real code (which would break if the code started to iterate the set, read the environment,
…) is the correspondence check plus the `determinism` harness (processes, threads, strace).
Partial: schedules, processes and hash seeds are runtime.
-/
namespace WgslVerif

theorem contains_congr {a b : List Nat} (h : ∀ x, x ∈ a ↔ x ∈ b) (x : Nat) : a.contains x = b.contains x := by
  cases ha : a.contains x <;> cases hb : b.contains x <;> simp_all [List.contains_iff_mem]

theorem structWanted_congr (m : Module) {a b : List Nat} (h : ∀ x, x ∈ a ↔ x ∈ b) (x : Nat) :
    structWanted m a x = structWanted m b x := by
  unfold structWanted; rw [contains_congr h x]

theorem rustStruct_congr (m : Module) (o : Options) {a b : List Nat} (h : ∀ x, x ∈ a ↔ x ∈ b)
    (hd : Nat) (t : Ty) (ms : List Member) : rustStruct m o a hd t ms = rustStruct m o b hd t ms := by
  unfold rustStruct; simp only [contains_congr h hd]

/-- **C18** (set order): any two enumerations of the variable-type set – any order, any
multiplicity – give the same struct section. -/
theorem C18_set_order (m : Module) (o : Options) (a b : List Nat) (h : ∀ x, x ∈ a ↔ x ∈ b) :
    structsWith m o a = structsWith m o b := by
  unfold structsWith
  have hf : (fun ht : Nat × Ty => structWanted m a ht.1) = (fun ht => structWanted m b ht.1) := by
    funext ht; exact structWanted_congr m h ht.1
  rw [hf]
  congr 1
  funext ht
  cases ht.2.inner <;> simp only [rustStruct_congr m o h]

/-- in particular, any permutation of the set's iteration order -/
theorem C18_perm (m : Module) (o : Options) (π : List Nat) (hπ : π.Perm (globalVariableTypes m)) :
    structsWith m o π = structs m o :=
  C18_set_order m o π (globalVariableTypes m) (fun _ => hπ.mem_iff)

/-- **C18** (function of its arguments): equal module, options, source and path give equal
results – there is no other input to the model. -/
theorem C18_pure (m : Module) (o : Options) (src : String) (path : Option String) (r r' : G Out)
    (h : r = gen m o src path) (h' : r' = gen m o src path) : r = r' := h.trans h'.symm

end WgslVerif
