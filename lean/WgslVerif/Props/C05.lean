import WgslVerif.Lemmas.Gen
import WgslVerif.Props.C09
import WgslVerif.Ext.WgslLayout
/-
C05 – Bytemuck layout checks make a compiling struct match the WGSL layout.

The WGSL offsets / size are the numbers naga's front end recorded (`member.offset`, the
`Layouter` size); that these are the WGSL memory-layout rules is hypothesis `layoutOK`
(`Ext.WgslLayout`), evaluated on every dumped module.
-/
namespace WgslVerif

/-- the compile-time checks the property prescribes for a struct: its size, and the offset of
every (non-builtin) member, with the WGSL numbers -/
def expectedAsserts (name : String) (t : Ty) (members : List Member) : List RAssert :=
  RAssert.size name t.laySize ("size of " ++ name ++ " does not match WGSL") ::
  (members.filter fun mem => !isBuiltinMember mem).filterMap fun mem =>
    mem.name.map fun n => RAssert.offset name n mem.offset ("offset of " ++ name ++ "." ++ n ++ " does not match WGSL")

/-- any assignment of sizes and field offsets to Rust structs (what rustc decides) -/
structure RustLayout where
  size : String → Nat
  offset : String → String → Nat

/-- the assertion holds under layout `L`, i.e. `const _: () = assert!(...)` compiles -/
def RustLayout.satisfies (L : RustLayout) : RAssert → Prop
  | .size s n _ => L.size s = n
  | .offset s f n _ => L.offset s f = n

theorem offsetAsserts_eq {name : String} {members : List Member} {offs : List RAssert}
    (ho : members.mapM (fun mem => do
        let n ← unwrapName "member-name" mem.name
        pure (RAssert.offset name n mem.offset ("offset of " ++ name ++ "." ++ n ++ " does not match WGSL")))
        = .ok offs) :
    offs = members.filterMap fun mem =>
      mem.name.map fun n => RAssert.offset name n mem.offset ("offset of " ++ name ++ "." ++ n ++ " does not match WGSL") := by
  induction members generalizing offs with
  | nil => rw [List.mapM_nil] at ho; injection ho with ho; subst ho; rfl
  | cons x xs ih =>
    obtain ⟨b, bs, hb, hbs, e⟩ := mapM_ok_cons ho
    subst e
    rw [List.filterMap_cons, ← ih hbs]
    obtain ⟨n, hn, hb⟩ := Except.bind_ok hb
    injection hb with hb; subst hb
    unfold unwrapName at hn
    cases hx : x.name with
    | none => rw [hx] at hn; cases hn
    | some n' => rw [hx] at hn; injection hn with hn; subst hn; rfl

/-- **C05** (complete): with bytemuck host-shareable derives on, a host-shareable struct carries
exactly the size check and one offset check per emitted field, with naga's WGSL numbers; every
other struct carries none. -/
theorem C05_complete {m : Module} {o : Options} {gvt : List Nat} {h : Nat} {t : Ty}
    {all : List Member} {s : RStruct} (hs : rustStruct m o gvt h t all = .ok s) :
    s.asserts = if o.bmHost && gvt.contains h then expectedAsserts s.name t all else [] := by
  obtain ⟨name, fields, offs, _, _, ho, _, _, _, e⟩ := rustStruct_ok hs
  subst e
  simp only
  split
  · unfold expectedAsserts
    rw [offsetAsserts_eq ho]
  · rfl

/-- **C05** (sound): whatever layout rustc gives the struct, if all emitted checks pass then its
size and every checked field offset are exactly the WGSL ones. -/
theorem C05_sound (L : RustLayout) (name : String) (t : Ty) (members : List Member)
    (hL : ∀ a ∈ expectedAsserts name t members, L.satisfies a) :
    L.size name = t.laySize ∧
    ∀ mem ∈ members, isBuiltinMember mem = false → ∀ n, mem.name = some n → L.offset name n = mem.offset := by
  have hsz : L.satisfies (RAssert.size name t.laySize ("size of " ++ name ++ " does not match WGSL")) :=
    hL _ (by unfold expectedAsserts; exact List.mem_cons_self)
  refine ⟨hsz, fun mem hm hb n hn => ?_⟩
  have : RAssert.offset name n mem.offset ("offset of " ++ name ++ "." ++ n ++ " does not match WGSL")
      ∈ expectedAsserts name t members := by
    unfold expectedAsserts
    apply List.mem_cons_of_mem
    apply List.mem_filterMap.mpr
    exact ⟨mem, List.mem_filter.mpr ⟨hm, by simp [hb]⟩, by simp [hn]⟩
  exact hL _ this

/-- the checks one emitted struct must carry -/
def StructAssertsOk (m : Module) (o : Options) (s : RStruct) : Prop :=
  match (indexed m.types).find? (fun ht => structNameOf ht == some s.name) with
  | some (h, t) =>
    match t.inner with
    | .struct members _ =>
      s.asserts = if o.bmHost && (globalVariableTypes m).contains h then expectedAsserts s.name t members else []
    | _ => False
  | none => False

instance (m : Module) (o : Options) (s : RStruct) : Decidable (StructAssertsOk m o s) := by
  unfold StructAssertsOk
  split
  · split <;> infer_instance
  · infer_instance

/-- the per-output predicate evaluated on real outputs -/
def C05Ok (m : Module) (o : Options) (out : Out) : Prop := ∀ s ∈ out.structs, StructAssertsOk m o s

instance (m : Module) (o : Options) (out : Out) : Decidable (C05Ok m o out) := by
  unfold C05Ok; infer_instance

/-- when struct names are distinct, looking a struct type up by name finds the type it came from -/
theorem find_struct_by_name {m : Module} (hn : ((indexed m.types).filterMap structNameOf).Nodup)
    {h : Nat} {t : Ty} {n : String} (hin : (h, t) ∈ indexed m.types) (hname : structNameOf (h, t) = some n) :
    (indexed m.types).find? (fun ht => structNameOf ht == some n) = some (h, t) := by
  generalize indexed m.types = l at hn hin
  induction l with
  | nil => cases hin
  | cons x xs ih =>
    rw [List.find?_cons]
    rcases List.mem_cons.mp hin with e | hin'
    · subst e; simp [hname]
    · have hx : ¬ (structNameOf x == some n) = true := by
        intro hx
        simp only [beq_iff_eq] at hx
        rw [List.filterMap_cons, hx] at hn
        simp only at hn
        have := (List.nodup_cons.mp hn).1
        exact this (List.mem_filterMap.mpr ⟨(h, t), hin', hname⟩)
      simp only [hx]
      apply ih _ hin'
      rw [List.filterMap_cons] at hn
      cases hsx : structNameOf x with
      | none => rw [hsx] at hn; exact hn
      | some y => rw [hsx] at hn; exact (List.nodup_cons.mp hn).2

/-- **C05**: every successful generation satisfies `C05Ok`. -/
theorem C05 {m : Module} {o : Options} {src : String} {path : Option String} {out : Out}
    (hn : ((indexed m.types).filterMap structNameOf).Nodup)
    (hg : gen m o src path = .ok out) : C05Ok m o out := by
  have hp := gen_ok hg
  intro s hs
  obtain ⟨hd, ty, members, span, hin, _, hi, hr⟩ := structs_mem hp.structs hs
  obtain ⟨name, _, _, hname, _, _, _, _, _, e⟩ := rustStruct_ok hr
  have hsn : s.name = name := by rw [e]
  have hfind := find_struct_by_name hn hin (show structNameOf (hd, ty) = some s.name by
    unfold structNameOf; simp only [hi]; rw [hsn]; exact hname)
  unfold StructAssertsOk
  rw [hfind]
  simp only [hi]
  exact C05_complete hr

end WgslVerif
