import WgslVerif.Props.C07
import WgslVerif.Props.C05
import WgslVerif.Props.C06
import WgslVerif.Ext.ReprC
/-
C07, last clause: "these layouts satisfy wgpu's vertex-buffer … validation".

`C07_buffer`: for every generated `impl S { VERTEX_ATTRIBUTES, vertex_buffer_layout }` whose struct
`S` is emitted, the `#[repr(C)]` layout of `S` (Ext.ReprC) and the attribute table pass the
vertex-buffer rules of wgpu-core's `create_render_pipeline` (Ext.WgpuVertex) – in all three
representations (glam's 16-aligned `Vec4` included), for any device limit the struct's size fits in.
-/
namespace WgslVerif

namespace WgpuVertex
/-- `VertexFormat::size` -/
def formatSize (f : String) : Option Nat := (formatInfo f).map fun i => i.2.1 * i.2.2
end WgpuVertex

/-! ## `#[repr(C)]` placement facts -/
namespace ReprC

theorem roundUp_mod (x a : Nat) : roundUp x a % a = 0 := by
  unfold roundUp; exact Nat.mul_mod_left _ _

theorem le_roundUp (x a : Nat) (ha : 0 < a) : x ≤ roundUp x a := by
  unfold roundUp
  have h1 := Nat.div_add_mod (x + a - 1) a
  have h2 := Nat.mod_lt (x + a - 1) ha
  have h3 : (x + a - 1) / a * a = a * ((x + a - 1) / a) := Nat.mul_comm _ _
  omega

/-- alignments that occur in vertex input structs -/
def GoodAlign (a : Nat) : Prop := a = 4 ∨ a = 8 ∨ a = 16

theorem roundUp_mod4 (x a : Nat) (ha : GoodAlign a) : roundUp x a % 4 = 0 := by
  unfold roundUp
  rcases ha with rfl | rfl | rfl <;> omega

theorem place_spec : ∀ (items : List (Nat × Nat)) (off : Nat),
    (∀ x ∈ items, GoodAlign x.2) →
    (place off items).1.length = items.length ∧ off ≤ (place off items).2 ∧
    ∀ p ∈ (place off items).1.zip (items.map (·.1)), p.1 % 4 = 0 ∧ p.1 + p.2 ≤ (place off items).2 := by
  intro items
  induction items with
  | nil => intro off _; exact ⟨rfl, Nat.le_refl _, fun p hp => by cases hp⟩
  | cons sa rest ih =>
    intro off hal
    have ha : GoodAlign sa.2 := hal sa List.mem_cons_self
    have hpos : 0 < sa.2 := by rcases ha with h | h | h <;> omega
    obtain ⟨h1, h2, h3⟩ := ih (roundUp off sa.2 + sa.1) (fun x hx => hal x (List.mem_cons_of_mem _ hx))
    have hle := le_roundUp off sa.2 hpos
    simp only [place, List.length_cons, List.map_cons, List.zip_cons_cons, List.mem_cons]
    refine ⟨by rw [h1], by omega, ?_⟩
    intro p hp
    rcases hp with rfl | hp
    · exact ⟨roundUp_mod4 off sa.2 ha, h2⟩
    · exact h3 p hp

theorem foldl_max_good : ∀ (items : List (Nat × Nat)) (acc : Nat), GoodAlign acc →
    (∀ x ∈ items, GoodAlign x.2) → GoodAlign (items.foldl (fun a x => max a x.2) acc) := by
  intro items
  induction items with
  | nil => intro acc h _; exact h
  | cons x rest ih =>
    intro acc hacc hal
    have hx : GoodAlign x.2 := hal x List.mem_cons_self
    simp only [List.foldl_cons]
    refine ih _ ?_ (fun y hy => hal y (List.mem_cons_of_mem _ hy))
    unfold GoodAlign at *
    omega

theorem structAlign_good (items : List (Nat × Nat)) (hne : items ≠ [])
    (hal : ∀ x ∈ items, GoodAlign x.2) : GoodAlign (structAlign items) := by
  cases items with
  | nil => exact absurd rfl hne
  | cons x rest =>
    unfold structAlign
    simp only [List.foldl_cons]
    have hx : GoodAlign x.2 := hal x List.mem_cons_self
    refine foldl_max_good rest _ ?_ (fun y hy => hal y (List.mem_cons_of_mem _ hy))
    unfold GoodAlign at *
    omega

/-- the rules hold for the `#[repr(C)]` layout of any struct whose field alignments are 4, 8 or 16
and whose attribute sizes (= field sizes) are at least 4 -/
theorem layout_bufferOk (items : List (Nat × Nat)) (limit : Nat)
    (hal : ∀ x ∈ items, GoodAlign x.2) (hsz : ∀ x ∈ items, 4 ≤ x.1)
    (hlim : (layout items).2 ≤ limit) (hl2 : limit ≤ 0x10000000) :
    WgpuVertex.bufferOk limit (layout items).2 ((layout items).1.zip (items.map (·.1))) = true := by
  obtain ⟨_, h2, h3⟩ := place_spec items 0 hal
  have hsize4 : (layout items).2 % 4 = 0 := by
    unfold layout
    simp only
    by_cases hne : items = []
    · subst hne; decide
    · exact roundUp_mod4 _ _ (structAlign_good items hne hal)
  have hend : (place 0 items).2 ≤ (layout items).2 := by
    unfold layout
    simp only
    by_cases hne : items = []
    · subst hne; decide
    · have hg := structAlign_good items hne hal
      exact le_roundUp _ _ (by rcases hg with h | h | h <;> omega)
  unfold WgpuVertex.bufferOk
  simp only [Bool.and_eq_true, decide_eq_true_eq, List.all_eq_true]
  refine ⟨⟨hsize4, hlim⟩, ?_⟩
  intro p hp
  have hp' : p ∈ (place 0 items).1.zip (items.map (·.1)) := hp
  obtain ⟨hm, he⟩ := h3 p hp'
  have hps : 4 ≤ p.2 := by
    have := (List.of_mem_zip hp').2
    obtain ⟨x, hx, e⟩ := List.mem_map.mp this
    rw [← e]; exact hsz x hx
  unfold WgpuVertex.attrOk
  simp only [Bool.and_eq_true, decide_eq_true_eq]
  have hmin : min p.2 4 = 4 := by omega
  refine ⟨⟨?_, by rw [hmin]; exact hm⟩, by omega⟩
  split <;> omega

end ReprC

/-! ## Sizes of the emitted vertex field types -/

/-- the non-boolean scalars of the module's scalar and vector types are 4 or 8 bytes wide (all that
WGSL can declare; booleans have no vertex format) -/
def wgslWidth (ty : Ty) : Bool :=
  match ty.inner with
  | .scalar s => s.kind == .bool || s.width == 4 || s.width == 8
  | .vector _ s => s.kind == .bool || s.width == 4 || s.width == 8
  | _ => true

/-- a vertex-capable member type: its Rust field type has the size of the chosen vertex format,
at least 4, and alignment 4, 8 or 16 – in every representation -/
theorem vertex_sizeAlign (m : Module) (repr : Repr3) (fuel : Nat) (ty : Ty) (f : String) (r : RustTy)
    (hf : vertexFormat ty = .ok f) (hr : rustType m repr (fuel + 1) ty = .ok r) (hw : wgslWidth ty = true) :
    ∃ sz al, ReprC.sizeAlign r = some (sz, al) ∧ WgpuVertex.formatSize f = some sz ∧
      ReprC.GoodAlign al ∧ 4 ≤ sz := by
  unfold vertexFormat at hf
  rw [rustType] at hr
  unfold wgslWidth at hw
  cases hi : ty.inner <;> rw [hi] at hf hr hw <;> simp only at hf hr hw
  case scalar s =>
    obtain ⟨k, w⟩ := s
    cases k <;> simp only [todo] at hf <;> try (cases hf; done)
    all_goals
      simp only [Bool.or_eq_true, beq_iff_eq, reduceCtorEq, false_or] at hw
      rcases hw with rfl | rfl <;> simp only at hf <;>
      first
        | (cases hf; done)
        | (cases hf
           simp only [rustScalarType] at hr
           cases hr
           refine ⟨_, _, rfl, ?_, ?_, ?_⟩ <;>
             simp [WgpuVertex.formatSize, WgpuVertex.formatInfo, ReprC.GoodAlign])
  case vector n s =>
    obtain ⟨k, w⟩ := s
    cases k <;> cases n <;> simp only [todo] at hf <;> try (cases hf; done)
    all_goals
      simp only [Bool.or_eq_true, beq_iff_eq, reduceCtorEq, false_or] at hw
      rcases hw with rfl | rfl <;> simp only at hf <;>
      first
        | (cases hf; done)
        | (cases hf
           cases repr <;>
             simp only [rustVectorType, glamVectorType, nalgebraVectorType, rustScalarType, bind, Except.bind,
               pure, Except.pure] at hr <;>
             cases hr <;>
             refine ⟨_, _, rfl, ?_, ?_, ?_⟩ <;>
             simp [WgpuVertex.formatSize, WgpuVertex.formatInfo, VecSize.toNat, ReprC.GoodAlign])
  all_goals (first | (cases hf) | (unfold todo at hf; cases hf))


/-! ## Fields of the emitted struct ↔ attributes of its table -/

inductive Pairs {α β : Type} (R : α → β → Prop) : List α → List β → Prop
  | nil : Pairs R [] []
  | cons {a : α} {b : β} {as : List α} {bs : List β} : R a b → Pairs R as bs → Pairs R (a :: as) (b :: bs)

/-- a field and the attribute that points at it -/
def FieldAttr (f : RField) (a : RAttr) : Prop :=
  f.name = a.field ∧ ∃ sz al, ReprC.sizeAlign f.ty = some (sz, al) ∧ WgpuVertex.formatSize a.format = some sz ∧
    ReprC.GoodAlign al ∧ 4 ≤ sz

theorem locatedMembers_filter {members : List Member} {fields : List (Nat × Member)}
    (h : locatedMembers members = .ok fields) :
    members.filter (fun mem => !isBuiltinMember mem) = fields.map (·.2) := by
  induction members generalizing fields with
  | nil => unfold locatedMembers at h; cases h; rfl
  | cons x xs ih =>
    unfold locatedMembers at h
    rw [List.filter_cons]
    cases hb : x.binding with
    | none => rw [hb] at h; cases h
    | some b =>
      rw [hb] at h
      cases b with
      | builtin t =>
        simp only at h
        simpa [isBuiltinMember, hb] using ih h
      | location l =>
        simp only at h
        obtain ⟨r, hr, h⟩ := Except.bind_ok h
        cases h
        simpa [isBuiltinMember, hb] using ih hr

/-- the attribute function of `vertexStructMethods` -/
def attrOf (m : Module) (sname : String) (lm : Nat × Member) : G RAttr := do
  let fname ← unwrapName "member-name" lm.2.name
  let ty ← typeAt m lm.2.ty
  let fmt ← vertexFormat ty
  pure ({ format := fmt, ofStruct := sname, field := fname, location := lm.1 } : RAttr)

theorem fields_attrs {m : Module} {o : Options} {sname : String} {len : Nat}
    (hw : ∀ ty ∈ m.types, wgslWidth ty = true) :
    ∀ (l : List (Nat × Member)) (idx : Nat) (fields : List RField) (attrs : List RAttr),
      l.mapM (attrOf m sname) = .ok attrs →
      structMembersFrom m o len idx (l.map (·.2)) = .ok fields →
      Pairs FieldAttr fields attrs := by
  intro l
  induction l with
  | nil =>
    intro idx fields attrs ha hf
    rw [List.mapM_nil] at ha; cases ha
    rw [List.map_nil, structMembersFrom] at hf; cases hf
    exact .nil
  | cons lm rest ih =>
    intro idx fields attrs ha hf
    obtain ⟨a, as, hfa, has, e⟩ := mapM_ok_cons ha
    subst e
    unfold attrOf at hfa
    obtain ⟨fname, hfn, hfa⟩ := Except.bind_ok hfa
    obtain ⟨ty, hty, hfa⟩ := Except.bind_ok hfa
    obtain ⟨fmt, hfmt, hfa⟩ := Except.bind_ok hfa
    cases hfa
    rw [List.map_cons, structMembersFrom] at hf
    obtain ⟨name, hn, hf⟩ := Except.bind_ok hf
    rw [hfn] at hn; cases hn
    dsimp only at hf
    unfold typeAt at hty
    split at hf
    case h_2 hnone => rw [hnone] at hty; cases hty
    rename_i ty' htys
    rw [htys] at hty; cases hty
    obtain ⟨ty'', hty'', hf⟩ := Except.bind_ok hf
    cases hty''
    have hwty : wgslWidth ty = true := hw ty (List.mem_of_getElem? htys)
    split at hf
    · -- a runtime-sized array has no vertex format
      rename_i base stride hi
      unfold vertexFormat at hfmt
      rw [hi] at hfmt
      simp only [todo] at hfmt
      cases hfmt
    · obtain ⟨t, ht, hf⟩ := Except.bind_ok hf
      obtain ⟨f, hfe, hf⟩ := Except.bind_ok hf
      obtain ⟨fs', hfs, hf⟩ := Except.bind_ok hf
      cases hfe; cases hf
      refine .cons ⟨rfl, ?_⟩ (ih (idx + 1) fs' as has hfs)
      exact vertex_sizeAlign m o.repr m.types.length ty fmt t hfmt ht hwty

/-! ## The rule, as a decidable predicate on the facts of an output -/

/-- the `(size, alignment)` list of the fields of an emitted struct -/
def fieldItems (s : RStruct) : List (Nat × Nat) :=
  s.fields.map fun f => (ReprC.sizeAlign f.ty).getD (0, 1)

/-- struct `s` (`#[repr(C)]`, all field sizes known) and the attribute table `v` of the same name:
the table lists the fields in order, and the buffer layout
`{ array_stride: size_of::<S>(), attributes: [offset_of!(S, f), format] }` passes wgpu-core's
vertex-buffer rules under the device limit `limit` -/
def vertexBufferOkB (limit : Nat) (s : RStruct) (v : RVertex) : Bool :=
  s.reprC && (v.attrs.map (·.field) == s.fields.map (·.name)) &&
  s.fields.all (fun f => (ReprC.sizeAlign f.ty).isSome) &&
  v.attrs.all (fun a => (WgpuVertex.formatSize a.format).isSome) &&
  WgpuVertex.bufferOk limit (ReprC.layout (fieldItems s)).2
    ((ReprC.layout (fieldItems s)).1.zip (v.attrs.map fun a => (WgpuVertex.formatSize a.format).getD 0))

theorem pairs_facts {fields : List RField} {attrs : List RAttr} (h : Pairs FieldAttr fields attrs) :
    attrs.map (·.field) = fields.map (·.name) ∧
    fields.all (fun f => (ReprC.sizeAlign f.ty).isSome) = true ∧
    attrs.all (fun a => (WgpuVertex.formatSize a.format).isSome) = true ∧
    attrs.map (fun a => (WgpuVertex.formatSize a.format).getD 0) =
      (fields.map fun f => (ReprC.sizeAlign f.ty).getD (0, 1)).map (·.1) ∧
    (∀ x ∈ fields.map (fun f => (ReprC.sizeAlign f.ty).getD (0, 1)), ReprC.GoodAlign x.2) ∧
    (∀ x ∈ fields.map (fun f => (ReprC.sizeAlign f.ty).getD (0, 1)), 4 ≤ x.1) := by
  induction h with
  | nil => exact ⟨rfl, rfl, rfl, rfl, fun _ hx => (by cases hx), fun _ hx => (by cases hx)⟩
  | cons hr _ ih =>
    obtain ⟨hn, sz, al, hsa, hfs, hga, h4⟩ := hr
    obtain ⟨i1, i2, i3, i4, i5, i6⟩ := ih
    refine ⟨by simp [hn, i1], by simp [hsa, i2], by simp [hfs, i3], by simp [hsa, hfs, i4], ?_, ?_⟩
    · intro x hx
      rcases List.mem_cons.mp hx with rfl | hx
      · simpa [hsa] using hga
      · exact i5 x hx
    · intro x hx
      rcases List.mem_cons.mp hx with rfl | hx
      · simpa [hsa] using h4
      · exact i6 x hx

/-- **C07** (vertex-buffer validation): every attribute table whose struct is emitted passes
wgpu-core's vertex-buffer rules – stride a multiple of 4, every attribute inside the stride and at
an offset that is a multiple of `min(size, 4)` – for the `#[repr(C)]` layout of that struct, in all
three representations, under any device limit the struct fits in. -/
theorem C07_buffer {m : Module} {o : Options} {src : String} {path : Option String} {out : Out}
    (hg : gen m o src path = .ok out)
    (hnames : ((indexed m.types).filterMap structNameOf).Nodup)
    (hw : ∀ ty ∈ m.types, wgslWidth ty = true)
    (v : RVertex) (hv : v ∈ out.vertex) (s : RStruct) (hs : s ∈ out.structs) (hsv : s.name = v.name)
    (limit : Nat) (hlim : (ReprC.layout (fieldItems s)).2 ≤ limit) (hl2 : limit ≤ 0x10000000) :
    vertexBufferOkB limit s v = true := by
  have hp := gen_ok hg
  -- the attribute table
  have hvx := hp.vertex
  unfold vertexStructMethods at hvx
  obtain ⟨inputs, hin, hvx⟩ := Except.bind_ok hvx
  obtain ⟨inp, hinp, hf⟩ := mapM_ok_mem hvx v hv
  obtain ⟨attrs, hattrs, hf⟩ := Except.bind_ok hf
  cases hf
  obtain ⟨e, _, _, a, _, _, hvi⟩ := getVertexInputStructs_mem hin inp hinp
  obtain ⟨hname, _, ty, members, span, hty, hinner, hloc, _⟩ := vertexInputOf_name hvi
  have htn : ty.name = some inp.name := by rw [hty] at hname; simpa using hname
  -- the struct
  obtain ⟨hd, ty', members', span', hin', _, hi', hr⟩ := structs_mem hp.structs hs
  obtain ⟨name, fields, offs, hn, hfields, _, _, _, _, es⟩ := rustStruct_ok hr
  have hsn : s.name = name := by rw [es]
  -- same arena entry
  have h1 : structNameOf (hd, ty') = some inp.name := by
    unfold structNameOf; simp only [hi']; rw [hn, ← hsn, hsv]
  have h2 : structNameOf (a.1, ty) = some inp.name := by
    unfold structNameOf; simp only [hinner]; exact htn
  have heq : (hd, ty') = (a.1, ty) :=
    filterMap_nodup_inj hnames hin' (mem_indexed.mpr hty) h1 h2
  cases heq
  rw [hinner] at hi'; cases hi'
  -- fields ↔ attributes
  rw [locatedMembers_filter hloc] at hfields
  have hpairs : Pairs FieldAttr fields attrs :=
    fields_attrs hw inp.fields 0 fields attrs hattrs hfields
  obtain ⟨p1, p2, p3, p4, p5, p6⟩ := pairs_facts hpairs
  have hrts : structHasRtsArrayMember m (inp.fields.map (·.2)) = false := by
    unfold structHasRtsArrayMember
    rw [List.any_eq_false]
    intro mem hmem
    obtain ⟨lm, hlm, rfl⟩ := List.mem_map.mp hmem
    obtain ⟨at', _, hat⟩ := mapM_ok_mem' hattrs lm hlm
    obtain ⟨fname, _, hat⟩ := Except.bind_ok hat
    obtain ⟨mty, hmty, hat⟩ := Except.bind_ok hat
    obtain ⟨fmt, hfmt, _⟩ := Except.bind_ok hat
    unfold typeAt at hmty
    unfold isDynArray
    cases hmt : m.types[lm.2.ty]? with
    | none => rw [hmt] at hmty; cases hmty
    | some t =>
      rw [hmt] at hmty; cases hmty
      simp only
      unfold vertexFormat at hfmt
      split
      · rename_i base stride hi
        rw [hi] at hfmt
        simp only [todo] at hfmt
        cases hfmt
      · simp
  subst es
  unfold vertexBufferOkB fieldItems
  simp only [locatedMembers_filter hloc, hrts, Bool.not_false, Bool.true_and, Bool.and_eq_true, beq_iff_eq]
  refine ⟨⟨⟨p1, p2⟩, p3⟩, ?_⟩
  rw [p4]
  exact ReprC.layout_bufferOk _ limit p5 p6 hlim hl2

/-! ## Non-vacuity: a concrete struct under the glam representation -/

namespace C07Example
def s : RStruct :=
  { name := "V", reprC := true, derives := [],
    fields := [⟨"a", .prim "f32", false⟩, ⟨"b", .glam "Vec4", false⟩, ⟨"c", .array (.prim "f32") 3, false⟩, ⟨"d", .glam "DVec2", false⟩],
    asserts := [] }
def v : RVertex :=
  { name := "V", count := 4, strideOf := "V", attrsOf := "V",
    attrs := [⟨"Float32", "V", "a", 0⟩, ⟨"Float32x4", "V", "b", 1⟩, ⟨"Float32x3", "V", "c", 2⟩, ⟨"Float64x2", "V", "d", 5⟩] }
/-- `a` at 0, `b` at 16 (glam's 16-aligned `Vec4`), `c` at 32, `d` at 48 (8-aligned), size 64 -/
example : ReprC.layout (fieldItems s) = ([0, 16, 32, 48], 64) := by decide
example : vertexBufferOkB 2048 s v = true := by decide
/-- the rule is not trivially true: a packed placement of `b` at offset 4 with stride 60 is fine
for wgpu (multiple of 4) but an offset of 2 is rejected, and so is a stride of 62 -/
example : WgpuVertex.bufferOk 2048 60 [(0, 4), (4, 16)] = true ∧ WgpuVertex.bufferOk 2048 60 [(2, 4)] = false ∧
    WgpuVertex.bufferOk 2048 62 [(0, 4)] = false ∧ WgpuVertex.bufferOk 2048 16 [(4, 16)] = false := by decide
end C07Example

end WgslVerif
