import WgslVerif.Props.C07
/-
C07: each vertex input struct gets exactly ONE `impl S { VERTEX_ATTRIBUTES … }` block
(`get_vertex_input_structs` sorts by name and removes adjacent duplicates).
-/
namespace WgslVerif

theorem dedupByName_strict (l : List VertexInput) (h : l.Pairwise (fun a b => a.name ≤ b.name)) :
    (dedupByName l).Pairwise (fun a b => a.name < b.name) := by
  fun_induction dedupByName l with
  | case1 => exact List.Pairwise.nil
  | case2 a => exact List.pairwise_singleton _ _
  | case3 a b rest heq ih =>
    apply ih
    have hab := List.pairwise_cons.mp h
    have hb := List.pairwise_cons.mp hab.2
    exact List.pairwise_cons.mpr ⟨fun z hz => hab.1 z (List.mem_cons_of_mem _ hz), hb.2⟩
  | case4 a b rest hne ih =>
    have hab := List.pairwise_cons.mp h
    refine List.pairwise_cons.mpr ⟨?_, ih hab.2⟩
    intro z hz
    have hz' := dedupByName_sub _ z hz
    have haz : a.name ≤ z.name := hab.1 z hz'
    have hab' : a.name ≤ b.name := hab.1 b List.mem_cons_self
    have hbz : b.name ≤ z.name := by
      rcases List.mem_cons.mp hz' with e | hr
      · rw [e]; exact String.le_refl _
      · exact (List.pairwise_cons.mp hab.2).1 z hr
    -- strictness: otherwise z ≤ a, hence b ≤ a, hence a = b by antisymmetry
    apply String.not_le.mp
    intro hza
    exact hne (String.le_antisymm hab' (String.le_trans hbz hza))

theorem pairwise_lt_nodup : ∀ (l : List String), l.Pairwise (· < ·) → l.Nodup := by
  intro l h
  exact h.imp (fun {a b} hab => String.ne_of_lt hab)

/-- **C07** (one table per struct): the names of the generated `impl` blocks are pairwise distinct. -/
theorem C07_impls_nodup {m : Module} {o : Options} {src : String} {path : Option String} {out : Out}
    (hg : gen m o src path = .ok out) : (out.vertex.map (·.name)).Nodup := by
  have hp := gen_ok hg
  have hvx := hp.vertex
  unfold vertexStructMethods at hvx
  obtain ⟨inputs, hin, hvx⟩ := Except.bind_ok hvx
  have hnames : out.vertex.map (·.name) = inputs.map (·.name) := by
    refine mapM_ok_map_eq hvx (fun inp _ v hv => ?_)
    obtain ⟨attrs, _, hv⟩ := Except.bind_ok hv
    cases hv
    rfl
  rw [hnames]
  unfold getVertexInputStructs at hin
  obtain ⟨per, _, hin⟩ := Except.bind_ok hin
  cases hin
  have hsorted : (per.flatten.mergeSort fun a b => decide (a.name ≤ b.name)).Pairwise (fun a b => a.name ≤ b.name) := by
    have := List.pairwise_mergeSort (le := fun (a b : VertexInput) => decide (a.name ≤ b.name))
      (fun a b c hab hbc => by
        simp only [decide_eq_true_eq] at hab hbc ⊢
        exact String.le_trans hab hbc)
      (fun a b => by
        simp only [Bool.or_eq_true, decide_eq_true_eq]
        exact String.le_total _ _) per.flatten
    exact this.imp (fun {a b} h => by simpa using h)
  have hstrict := dedupByName_strict _ hsorted
  apply pairwise_lt_nodup
  exact List.pairwise_map.mpr hstrict

end WgslVerif
