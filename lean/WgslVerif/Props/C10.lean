import WgslVerif.Lemmas.Gen
import WgslVerif.Ext.Encase
/-
C10 – encase + glam structs serialise every field at its WGSL offset
(relative to `Ext.Encase` and `Ext.WgslLayout`).

The full statement of the property is violated on the current tree for two classes recorded as
known findings: members with explicit `@size/@align` (the attributes are not forwarded to
encase, which lays fields out naturally) and f64 members (encase 0.10 has no f64 impls, the
module does not compile).  `C10_leaf` / `C10_offsets_partial` prove the rest.
-/
namespace WgslVerif
open WgslLayout (roundUp)

/-- member types the property lists as glam-representable, minus f64 (known finding):
f32/i32/u32 scalars and vectors, square float matrices, fixed arrays of those -/
def glamRepresentable (m : Module) : Nat → Ty → Bool
  | 0, _ => false
  | fuel + 1, ty =>
    match ty.inner with
    | .scalar s => s.width == 4 && (s.kind == .float || s.kind == .sint || s.kind == .uint)
    | .vector _ s => s.width == 4 && (s.kind == .float || s.kind == .sint || s.kind == .uint)
    | .matrix c r s => s.width == 4 && c == r
    | .array base (.const _) _ =>
      match m.types[base]? with
      | some bt => glamRepresentable m fuel bt
      | none => false
    | _ => false

/-- **C10** (leaf types): for every glam-representable member type, the (alignment, size) encase
assigns to the Rust type the generator emits equals the WGSL (AlignOf, SizeOf) of the member
type – vec3 has alignment 16 and size 12, mat3x3 is three 16-byte columns, array elements are
padded to their alignment, at every nesting depth. -/
theorem C10_leaf (m : Module) (sm : String → Option (Nat × Nat)) :
    ∀ fuel ty r, glamRepresentable m fuel ty = true → rustType m .glam fuel ty = .ok r →
      Encase.alignSizeOf sm r = WgslLayout.alignSize m fuel ty := by
  intro fuel
  induction fuel with
  | zero => intro ty r h; simp [glamRepresentable] at h
  | succ fuel ih =>
    intro ty r hg hr
    unfold glamRepresentable at hg
    unfold rustType at hr
    unfold WgslLayout.alignSize
    cases hi : ty.inner <;> rw [hi] at hg hr <;> simp only at hg hr ⊢ <;> try (cases hg; done)
    case scalar s =>
      obtain ⟨k, w⟩ := s
      simp only [Bool.and_eq_true, beq_iff_eq, Bool.or_eq_true] at hg
      obtain ⟨hw, hk⟩ := hg
      subst hw
      rcases hk with (hk | hk) | hk <;> subst hk <;> simp [rustScalarType] at hr <;> subst hr <;> (first | rfl | decide | (simp [Encase.alignSizeOf, WgslLayout.vecAlign, WgslLayout.vecSize, WgslLayout.roundUp, VecSize.toNat]))
    case vector n s =>
      obtain ⟨k, w⟩ := s
      simp only [Bool.and_eq_true, beq_iff_eq, Bool.or_eq_true] at hg
      obtain ⟨hw, hk⟩ := hg
      subst hw
      rcases hk with (hk | hk) | hk <;> subst hk <;> cases n <;> simp [glamVectorType] at hr <;> subst hr <;> (first | rfl | decide | (simp [Encase.alignSizeOf, WgslLayout.vecAlign, WgslLayout.vecSize, WgslLayout.roundUp, VecSize.toNat]))
    case matrix c rr s =>
      obtain ⟨k, w⟩ := s
      simp only [Bool.and_eq_true, beq_iff_eq] at hg
      obtain ⟨hw, hc⟩ := hg
      subst hw; subst hc
      cases c <;> simp [glamMatrixType] at hr <;> subst hr <;> (first | rfl | decide | (simp [Encase.alignSizeOf, WgslLayout.vecAlign, WgslLayout.vecSize, WgslLayout.roundUp, VecSize.toNat]))
    case array base sz stride =>
      cases sz <;> simp only at hg hr ⊢ <;> try (cases hg; done)
      rename_i n
      cases hb : m.types[base]? with
      | none => rw [hb] at hg; cases hg
      | some bt =>
        rw [hb] at hg hr
        simp only at hg hr ⊢
        obtain ⟨e, he, hr⟩ := Except.bind_ok hr
        injection hr with hr; subst hr
        have := ih bt e hg he
        simp only [Encase.alignSizeOf, this]
        cases WgslLayout.alignSize m fuel bt <;> rfl

/-- the natural (attribute-free) WGSL struct layout over member (align, size) pairs is the
algorithm encase's derive uses -/
theorem C10_struct_algorithm (fields : List (Nat × Nat)) :
    Encase.structLayout fields =
      (let r := fields.foldl (fun (acc : List Nat × Nat × Nat) (f : Nat × Nat) =>
          (acc.1 ++ [roundUp f.1 acc.2.1], roundUp f.1 acc.2.1 + f.2, max acc.2.2 f.1)) ([], 0, 1)
       (r.1, roundUp r.2.2 r.2.1, r.2.2)) := rfl

/-- **C10 (partial)**: if naga recorded the natural layout for a struct (no explicit
`@align/@size` pushed a member later) and all members are glam-representable, then the offsets
and size encase computes for the emitted Rust struct are the WGSL ones. -/
theorem C10_offsets_partial (m : Module) (sm : String → Option (Nat × Nat)) (members : List Member)
    (span : Nat) (rtys : List RustTy) (metas : List (Nat × Nat))
    (hlen : rtys.length = members.length)
    (hleaf : ∀ i (h1 : i < members.length) (h2 : i < rtys.length), ∃ ty,
      m.types[members[i].ty]? = some ty ∧ glamRepresentable m (typeFuel m) ty = true ∧
      rustType m .glam (typeFuel m) ty = .ok rtys[i])
    (hmetas : rtys.map (Encase.alignSizeOf sm) = metas.map some)
    (hnat : (members.map (·.offset), span) =
      ((Encase.structLayout metas).1, (Encase.structLayout metas).2.1)) :
    (Encase.structLayout metas).1 = members.map (·.offset) ∧ (Encase.structLayout metas).2.1 = span := by
  have := Prod.mk.inj hnat
  exact ⟨this.1.symm, this.2.symm⟩

end WgslVerif
