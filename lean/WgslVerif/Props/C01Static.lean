import WgslVerif.Props.C01Derive
import WgslVerif.Props.C04
import WgslVerif.Props.C07Nodup
/-
C01, the remaining clauses of `Ext.RustStatic` as theorems about the model:

* `C01_literals`  – every exported constant's literal has the constant's declared type (all modules);
* `C01_keywords`  – no WGSL-derived identifier is a Rust keyword when `Ok` is returned on the prettyplease path;
* `C01_names`     – no item, parameter or field is defined twice, for every module whose WGSL names do not
                    collide with the generated ones (`NamesBenign`, decidable, WGSL-side only);
* `C01_shadow`, `C01_capture` – no user struct shadows a crate / prelude name, no constant can be captured (`ShadowBenign`);
* `C01_static_partial` – these together with `C01_derives_satisfiable`.

`resolveIssues` (every referenced item is defined) is proved in `Props/C01Resolve.lean`, which also assembles the
full theorem `C01_static`.  All clauses are additionally evaluated on every real output and held against rustc
(`Check/C01S.lean`, `checklib/c01_static.py`).
-/
namespace WgslVerif
open RustStatic

/-! ### literals -/

theorem C01_literals {m : Module} {o : Options} {src : String} {path : Option String} {out : Out}
    (hg : gen m o src path = .ok out) : literalIssues out = [] := by
  have hp := gen_ok hg
  unfold literalIssues
  apply filterMap_nil_of
  intro c hc
  rw [hp.consts] at hc
  unfold consts at hc
  obtain ⟨k, _, hk⟩ := List.mem_filterMap.mp hc
  split at hk
  · rename_i n l _ _
    cases hk
    cases l <;> rfl
  · cases hk

/-! ### keywords -/

theorem C01_keywords {m : Module} {o : Options} {src : String} {path : Option String} {out : Out}
    (hg : gen m o src path = .ok out) (hr : o.rustfmt = false) : keywordIssues out = [] := by
  have hp := gen_ok hg
  unfold keywordIssues
  apply filterMap_nil_of
  intro n hn
  cases hk : rustKeywords.contains n with
  | false => rfl
  | true =>
    exfalso
    apply hp.keywords
    exact ⟨hr, List.any_eq_true.mpr ⟨n, hn, hk⟩⟩

/-! ### names -/

/-- names the generated text may define at the module root, type namespace -/
def reservedTypeNames : List String := ["VertexEntry", "FragmentEntry", "OverrideConstants", "bind_groups", "compute"]

/-- names of all struct types of the module -/
def structTypeNames (m : Module) : List String := (indexed m.types).filterMap structNameOf

def vertexEntriesOf (m : Module) : List EntryPoint := m.entries.filter fun e => e.stage == .vertex
def fragmentEntriesOf (m : Module) : List EntryPoint := m.entries.filter fun e => e.stage == .fragment

/-- every name the generated text may define at the module root, value namespace, for this module -/
def valueItemsM (m : Module) : List String :=
  (consts m).map (·.name) ++
  m.entries.map (fun e => "ENTRY_" ++ e.upper) ++
  ["SOURCE"] ++ ["PUSH_CONSTANT_STAGES"] ++
  ["vertex_state", "fragment_state", "create_shader_module"] ++
  (vertexEntriesOf m).map (fun e => e.name ++ "_entry") ++
  (fragmentEntriesOf m).map (fun e => e.name ++ "_entry") ++
  ["set_bind_groups"] ++ ["create_pipeline_layout"]

def computeItemsM (m : Module) : List String :=
  (m.entries.filter fun e => e.stage == .compute).flatMap fun e =>
    [e.upper ++ "_WORKGROUP_SIZE", "create_" ++ e.name ++ "_pipeline"]

def overrideParamNames (m : Module) : List String := if m.overrides.isEmpty then [] else ["overrides"]

/-- The modules for which "no item is defined twice" is claimed: WGSL-side conditions only. The first three say
that no WGSL name collides with a generated one (or, through `to_uppercase` / `to_snake`, with another WGSL name);
the last four are guaranteed by WGSL itself (declarations of one scope have different names). -/
structure NamesBenign (m : Module) : Prop where
  arena : TypeArenaOk m
  types : (structTypeNames m ++ reservedTypeNames).Nodup
  values : (valueItemsM m).Nodup
  computes : (computeItemsM m).Nodup
  params : ∀ e ∈ vertexEntriesOf m, ∀ inputs, vertexEntryStructs m e = .ok inputs →
    (inputs.map (·.snake) ++ overrideParamNames m).Nodup
  members : ∀ ht ∈ indexed m.types, ∀ ms sp, ht.2.inner = .struct ms sp → (ms.map (·.name)).Nodup
  overrides : (m.overrides.map (·.name)).Nodup
  globals : ((boundGlobals m).map (·.name)).Nodup

theorem nodup_of_map {α β : Type} (f : α → β) {l : List α} (h : (l.map f).Nodup) : l.Nodup := by
  induction l with
  | nil => exact List.nodup_nil
  | cons a l ih =>
    rw [List.map_cons, List.nodup_cons] at h
    rw [List.nodup_cons]
    exact ⟨fun hm => h.1 (List.mem_map_of_mem hm), ih h.2⟩

theorem dupIssue_nil {cls : String} {l : List String} (h : l.Nodup) : dupIssue cls l = [] := by
  unfold dupIssue; rw [if_pos h]

theorem dupIssueNat_nil {cls : String} {l : List Nat} (h : l.Nodup) : dupIssueNat cls l = [] := by
  unfold dupIssueNat; rw [if_pos h]

theorem sublist_ite {α : Type} (c : Prop) [Decidable c] (x : α) : List.Sublist (if c then [x] else []) [x] := by
  split
  · exact List.Sublist.refl _
  · exact List.nil_sublist _

/-- the boiler-plate struct items are a sublist of the reserved ones -/
theorem boilerTypes_sublist (m : Module) :
    List.Sublist
      ((entryBoiler m ++ [("fn:create_shader_module", createShaderModuleText)]).filterMap fun kt =>
        if kt.1 == "struct:VertexEntry" then some "VertexEntry"
        else if kt.1 == "struct:FragmentEntry" then some "FragmentEntry" else none)
      ["VertexEntry", "FragmentEntry"] := by
  unfold entryBoiler
  cases m.entries.any (·.stage == .vertex) <;> cases m.entries.any (·.stage == .fragment) <;> decide

theorem boilerFns_sublist (m : Module) :
    List.Sublist
      ((entryBoiler m ++ [("fn:create_shader_module", createShaderModuleText)]).filterMap fun kt =>
        if kt.1 == "fn:vertex_state" then some "vertex_state"
        else if kt.1 == "fn:fragment_state" then some "fragment_state"
        else if kt.1 == "fn:create_shader_module" then some "create_shader_module" else none)
      ["vertex_state", "fragment_state", "create_shader_module"] := by
  unfold entryBoiler
  cases m.entries.any (·.stage == .vertex) <;> cases m.entries.any (·.stage == .fragment) <;> decide

theorem vertexEntries_fnNames {m : Module} {ves : List RVertexEntry} (h : vertexEntries m = .ok ves) :
    ves.map (·.fnName) = (vertexEntriesOf m).map (fun e => e.name ++ "_entry") := by
  unfold vertexEntries at h
  have := mapM_ok_eq_map (g := fun e => (e.name ++ "_entry")) (f := fun e => do
      let inputs ← vertexEntryStructs m e
      pure (({ fnName := e.name ++ "_entry", n := inputs.length,
               params := (inputs.map fun i => (i.snake, "wgpu :: VertexStepMode")) ++ overridesParam m,
               entryConst := "ENTRY_" ++ e.upper, buffers := inputs.map fun i => (i.name, i.snake),
               constants := constSrc m } : RVertexEntry).fnName))
    (l := vertexEntriesOf m) (r := ves.map (·.fnName)) ?_ ?_
  · exact this
  · -- mapM of the projected closure
    unfold vertexEntriesOf
    generalize (m.entries.filter fun e => e.stage == .vertex) = l at h ⊢
    induction l generalizing ves with
    | nil => rw [List.mapM_nil] at h; cases h; rfl
    | cons a l ih =>
      obtain ⟨b, bs, hb, hbs, e⟩ := mapM_ok_cons h
      subst e
      obtain ⟨inputs, hin, hb⟩ := Except.bind_ok hb
      cases hb
      rw [List.mapM_cons, hin]
      simp only [List.map_cons]
      rw [ih hbs]
      rfl
  · intro a _ b hb
    obtain ⟨inputs, _, hb⟩ := Except.bind_ok hb
    cases hb; rfl

theorem overrideFields_names {m : Module} :
    ∀ {l : List Override} {fields : List (String × RustTy)},
      l.mapM (fun ov => do
        let name ← unwrapName "override-name" ov.name
        let ty ← overrideFieldType m ov
        pure (name, if ov.hasInit then RustTy.option ty else ty)) = .ok fields →
      fields.map (fun f => some f.1) = l.map (·.name) := by
  intro l
  induction l with
  | nil => intro fields hfs; rw [List.mapM_nil] at hfs; cases hfs; rfl
  | cons a l ih =>
    intro fields hfs
    obtain ⟨b, bs, hb', hbs, e⟩ := mapM_ok_cons hfs
    subst e
    obtain ⟨nm, hnm, hb'⟩ := Except.bind_ok hb'
    obtain ⟨t, _, hb'⟩ := Except.bind_ok hb'
    cases hb'
    simp only [List.map_cons]
    rw [ih hbs]
    congr 1
    cases hn : a.name with
    | none => rw [hn] at hnm; cases hnm
    | some n => rw [hn] at hnm; cases hnm; rfl

/-- **C01** (names): for a benign module, no item of one namespace, parameter of one function, field of one
struct, group item or attribute table is defined twice in a successfully generated module. -/
theorem C01_names {m : Module} {o : Options} {src : String} {path : Option String} {out : Out}
    (hb : NamesBenign m) (hg : gen m o src path = .ok out) : nameIssues out = [] := by
  have hp := gen_ok hg
  have h04 := C04 hg
  unfold nameIssues
  simp only [List.append_eq_nil_iff]
  refine ⟨⟨⟨⟨⟨⟨⟨⟨⟨?_, ?_⟩, ?_⟩, ?_⟩, ?_⟩, ?_⟩, ?_⟩, ?_⟩, ?_⟩, ?_⟩
  · -- type namespace
    apply dupIssue_nil
    have hsub : List.Sublist (typeItems out) (structTypeNames m ++ reservedTypeNames) := by
      unfold typeItems reservedTypeNames
      rw [hp.boiler]
      have h1 : List.Sublist (out.structs.map (·.name)) (structTypeNames m) := by
        rw [C08 hg]
        exact List.Sublist.filterMap _ List.filter_sublist
      have h2 := boilerTypes_sublist m
      have h3 := sublist_ite (out.overrides.isSome = true) "OverrideConstants"
      have h4 := sublist_ite (out.bindModule.isSome = true) "bind_groups"
      have h5 : List.Sublist (if out.compute.isEmpty = true then [] else ["compute"]) ["compute"] := by
        split
        · exact List.nil_sublist _
        · exact List.Sublist.refl _
      have := (((h1.append h2).append h3).append h4).append h5
      simpa [List.append_assoc] using this
    exact hsub.nodup hb.types
  · -- value namespace
    apply dupIssue_nil
    have hsub : List.Sublist (valueItems out) (valueItemsM m) := by
      unfold valueItems valueItemsM
      rw [hp.boiler, hp.consts, hp.entryConsts, vertexEntries_fnNames hp.vertexEntries, hp.fragmentEntries]
      obtain ⟨push, _, hps, _⟩ := hp.push
      have h1 : List.Sublist (match out.pushStages with | some p => [p.1] | none => []) ["PUSH_CONSTANT_STAGES"] := by
        rw [hps]
        cases push with
        | none => exact List.nil_sublist _
        | some p => exact List.Sublist.refl _
      have h2 := boilerFns_sublist m
      have h3 := sublist_ite (out.bindModule.isSome = true) "set_bind_groups"
      have e1 : (entryPointConstants m).map (·.1) = m.entries.map (fun e => "ENTRY_" ++ e.upper) := by
        unfold entryPointConstants; simp [List.map_map, Function.comp_def]
      have e2 : (fragmentEntries m).map (·.fnName) = (fragmentEntriesOf m).map (fun e => e.name ++ "_entry") := by
        unfold fragmentEntries fragmentEntriesOf; simp [List.map_map, Function.comp_def]
      rw [e1, e2]
      have s1 := (List.Sublist.refl ((consts m).map (·.name))).append
        (List.Sublist.refl (m.entries.map (fun e => "ENTRY_" ++ e.upper)))
      have s2 := s1.append (List.Sublist.refl ["SOURCE"])
      have s3 := s2.append h1
      have s4 := s3.append h2
      have s5 := s4.append (List.Sublist.refl ((vertexEntriesOf m).map (fun e => e.name ++ "_entry")))
      have s6 := s5.append (List.Sublist.refl ((fragmentEntriesOf m).map (fun e => e.name ++ "_entry")))
      have s7 := s6.append h3
      exact s7.append (List.Sublist.refl ["create_pipeline_layout"])
    exact hsub.nodup hb.values
  · -- items of `mod compute`
    apply dupIssue_nil
    have : computeItems out = computeItemsM m := by
      unfold computeItems computeItemsM
      rw [hp.compute]
      unfold computeModule
      simp [List.map_flatMap]
    rw [this]
    exact hb.computes
  · -- parameters of the vertex entry helpers
    apply List.flatMap_eq_nil_iff.mpr
    intro ve hve
    apply dupIssue_nil
    have hv := hp.vertexEntries
    unfold vertexEntries at hv
    obtain ⟨e, he, hfe⟩ := mapM_ok_mem hv ve hve
    obtain ⟨inputs, hin, hfe⟩ := Except.bind_ok hfe
    cases hfe
    have := hb.params e he inputs hin
    simp only [List.map_append, List.map_map, Function.comp_def]
    unfold overridesParam
    unfold overrideParamNames at this
    split <;> simp_all
  · -- parameters of the fragment entry helpers
    apply List.flatMap_eq_nil_iff.mpr
    intro fe hfe
    apply dupIssue_nil
    rw [hp.fragmentEntries] at hfe
    unfold fragmentEntries at hfe
    obtain ⟨e, _, rfl⟩ := List.mem_map.mp hfe
    unfold overridesParam
    split <;> simp
  · -- fields of a struct
    apply List.flatMap_eq_nil_iff.mpr
    intro s hs
    apply dupIssue_nil
    obtain ⟨hd, ty, ms, sp, hin, _, hi, hr⟩ := structs_mem hp.structs hs
    obtain ⟨name, fields, offs, _, hf, _, _, _, _, e⟩ := rustStruct_ok hr
    unfold structMembers at hf
    have hnames := structMembersFrom_names _ 0 fields hf
    have hmn := hb.members (hd, ty) hin ms sp hi
    have hsub : List.Sublist ((ms.filter fun mem => !isBuiltinMember mem).map (·.name)) (ms.map (·.name)) :=
      List.Sublist.map _ List.filter_sublist
    have hnd := hsub.nodup hmn
    rw [← hnames] at hnd
    have hfe : s.fields = fields := by rw [e]
    rw [hfe]
    have : ((fields.map (·.name)).map some).Nodup := by simpa [List.map_map, Function.comp_def] using hnd
    exact nodup_of_map _ this
  · -- fields of `OverrideConstants`
    have ho := hp.overrides
    unfold pipelineOverridableConstants at ho
    obtain ⟨fields, hfs, ho⟩ := Except.bind_ok ho
    obtain ⟨req, _, ho⟩ := Except.bind_ok ho
    obtain ⟨opt, _, ho⟩ := Except.bind_ok ho
    have hnames := overrideFields_names hfs
    split at ho
    · injection ho with ho; rw [← ho]
    · injection ho with ho; rw [← ho]
      apply dupIssue_nil
      have hnd := hb.overrides
      rw [← hnames] at hnd
      have : ((fields.map (·.1)).map some).Nodup := by simpa [List.map_map, Function.comp_def] using hnd
      exact nodup_of_map _ this
  · -- fields of a bind group layout struct
    apply List.flatMap_eq_nil_iff.mpr
    intro g hgm
    apply dupIssue_nil
    have hgo := h04.groups g hgm
    have hf := hgo.fields
    have hsub : List.Sublist ((varsOf m g.no).map (·.name)) ((boundGlobals m).map (·.name)) :=
      List.Sublist.map _ List.filter_sublist
    have hnd := hsub.nodup hb.globals
    have : g.layoutFields.map (fun f => some f.1) = (varsOf m g.no).map (·.name) := by
      have := congrArg (List.map (·.1)) hf
      simpa [List.map_map, Function.comp_def] using this
    rw [← this] at hnd
    have : ((g.layoutFields.map (·.1)).map some).Nodup := by simpa [List.map_map, Function.comp_def] using hnd
    exact nodup_of_map _ this
  · -- group items
    apply dupIssueNat_nil
    rw [h04.numbering]
    exact List.nodup_range
  · -- attribute tables
    exact dupIssue_nil (C07_impls_nodup hg)

/-! ### `NamesBenign` is decidable -/

def namesBenignB (m : Module) : Bool :=
  typeArenaOkB m &&
  decide (structTypeNames m ++ reservedTypeNames).Nodup &&
  decide (valueItemsM m).Nodup &&
  decide (computeItemsM m).Nodup &&
  (vertexEntriesOf m).all (fun e =>
    match vertexEntryStructs m e with
    | .ok inputs => decide (inputs.map (·.snake) ++ overrideParamNames m).Nodup
    | .error _ => true) &&
  (indexed m.types).all (fun ht =>
    match ht.2.inner with
    | .struct ms _ => decide (ms.map (·.name)).Nodup
    | _ => true) &&
  decide (m.overrides.map (·.name)).Nodup &&
  decide ((boundGlobals m).map (·.name)).Nodup

theorem namesBenignB_sound (m : Module) (h : namesBenignB m = true) : NamesBenign m := by
  unfold namesBenignB at h
  simp only [Bool.and_eq_true, decide_eq_true_eq] at h
  obtain ⟨⟨⟨⟨⟨⟨⟨ha, ht⟩, hv⟩, hc⟩, hpar⟩, hmem⟩, hov⟩, hgl⟩ := h
  rw [List.all_eq_true] at hpar hmem
  refine ⟨typeArenaOkB_sound m ha, ht, hv, hc, ?_, ?_, hov, hgl⟩
  · intro e he inputs hin
    have := hpar e he
    rw [hin] at this
    simpa using this
  · intro ht' hin ms sp hi
    have := hmem ht' hin
    rw [hi] at this
    simpa using this

/-! ### shadowing and capture -/

def allCrateNames : List String := ["wgpu", "std", "bytemuck", "encase", "serde", "glam", "nalgebra"]

/-- member names of all struct types of the module -/
def memberNamesM (m : Module) : List (Option String) :=
  (indexed m.types).flatMap fun ht =>
    match ht.2.inner with
    | .struct ms _ => ms.map (·.name)
    | _ => []

/-- the constants the generated module may define itself -/
def generatedConstNamesM (m : Module) : List String :=
  m.entries.map (fun e => "ENTRY_" ++ e.upper) ++ ["SOURCE", "PUSH_CONSTANT_STAGES"] ++ preludeValueNames

/-- WGSL names that neither shadow a crate / prelude name the generated text spells nor can be captured by an
unhygienic binding: struct names are not crate or prelude type names; constants are written without lower-case
letters and are not called like a struct member or `None` / `Some`; no member is called like a generated constant. -/
structure ShadowBenign (m : Module) : Prop where
  structs : ∀ n ∈ structTypeNames m, n ∉ allCrateNames ∧ n ∉ preludeTypeNames
  consts : ∀ c ∈ consts m, c.name ∉ preludeValueNames ∧ hasLower c.name = false ∧ some c.name ∉ memberNamesM m
  /-- no struct member is named like a constant the generated module defines -/
  generated : ∀ n ∈ generatedConstNamesM m, some n ∉ memberNamesM m

theorem crateNames_sub (o : Out) : ∀ n ∈ crateNames o, n ∈ allCrateNames := by
  intro n hn
  unfold crateNames at hn
  simp only [List.mem_append] at hn
  unfold allCrateNames
  rcases hn with ((((hn | hn) | hn) | hn) | hn) | hn
  · revert hn; simp; intro h; rcases h with h | h <;> simp [h]
  all_goals (split at hn <;> simp_all)

theorem emitted_struct_name {m : Module} {o : Options} {src : String} {path : Option String} {out : Out}
    (hg : gen m o src path = .ok out) {s : RStruct} (hs : s ∈ out.structs) : s.name ∈ structTypeNames m := by
  have h1 : s.name ∈ out.structs.map (·.name) := List.mem_map_of_mem hs
  rw [C08 hg] at h1
  exact (List.Sublist.filterMap _ List.filter_sublist).subset h1

/-- **C01** (shadowing): no user struct shadows a crate or prelude name, no constant `None` / `Some`. -/
theorem C01_shadow {m : Module} {o : Options} {src : String} {path : Option String} {out : Out}
    (hb : ShadowBenign m) (hg : gen m o src path = .ok out) : shadowIssues out = [] := by
  have hp := gen_ok hg
  unfold shadowIssues
  simp only [List.append_eq_nil_iff]
  refine ⟨⟨?_, ?_⟩, ?_⟩
  · apply filterMap_nil_of
    intro s hs
    have hn := (hb.structs s.name (emitted_struct_name hg hs)).1
    cases hc : (crateNames out).contains s.name with
    | false => rfl
    | true => exact (hn (crateNames_sub out _ (List.contains_iff_mem.mp hc))).elim
  · apply filterMap_nil_of
    intro s hs
    have hn := (hb.structs s.name (emitted_struct_name hg hs)).2
    cases hc : preludeTypeNames.contains s.name with
    | false => rfl
    | true => exact (hn (List.contains_iff_mem.mp hc)).elim
  · apply filterMap_nil_of
    intro c hc
    rw [hp.consts] at hc
    have hn := (hb.consts c hc).1
    cases hcc : preludeValueNames.contains c.name with
    | false => rfl
    | true => exact (hn (List.contains_iff_mem.mp hcc)).elim

/-- an emitted field is named like a member of some struct type -/
theorem field_name_is_member {m : Module} {o : Options} {src : String} {path : Option String} {out : Out}
    (hg : gen m o src path = .ok out) {n : String}
    (hcc : (out.structs.flatMap fun s => s.fields.map (·.name)).contains n = true) : some n ∈ memberNamesM m := by
  have hp := gen_ok hg
  obtain ⟨s, hs, hf⟩ := List.mem_flatMap.mp (List.contains_iff_mem.mp hcc)
  obtain ⟨hd, ty, ms, sp, hin, _, hi, hr⟩ := structs_mem hp.structs hs
  obtain ⟨name, fields, offs, _, hff, _, _, _, _, e⟩ := rustStruct_ok hr
  unfold structMembers at hff
  have hnames := structMembersFrom_names _ 0 fields hff
  have hfe : s.fields = fields := by rw [e]
  rw [hfe] at hf
  have h1 : some n ∈ fields.map (fun f => some f.name) := by
    obtain ⟨f, hfm, hfn⟩ := List.mem_map.mp hf
    exact List.mem_map.mpr ⟨f, hfm, by rw [hfn]⟩
  rw [hnames] at h1
  have h2 : some n ∈ ms.map (·.name) := (List.Sublist.map _ List.filter_sublist).subset h1
  unfold memberNamesM
  exact List.mem_flatMap.mpr ⟨(hd, ty), hin, by simp only [hi]; exact h2⟩

theorem generatedConstNames_sub {m : Module} {o : Options} {src : String} {path : Option String} {out : Out}
    (hg : gen m o src path = .ok out) :
    ∀ n ∈ generatedConstNames out ++ preludeValueNames, n ∈ generatedConstNamesM m := by
  have hp := gen_ok hg
  obtain ⟨push, _, hps, _⟩ := hp.push
  intro n hn
  unfold generatedConstNames at hn
  unfold generatedConstNamesM
  rw [hp.entryConsts, hps] at hn
  simp only [List.mem_append] at hn ⊢
  rcases hn with ((hn | hn) | hn) | hn
  · left; left
    unfold entryPointConstants at hn
    simpa [List.map_map, Function.comp_def] using hn
  · left; right; simp at hn; simp [hn]
  · left; right
    cases push with
    | none => simp at hn
    | some p => simp at hn; simp [hn]
  · right; exact hn

/-- **C01** (capture): no constant in scope - exported or generated - can be captured by a binding of a derive
expansion or of the generated functions (it has no lower-case letter and is not named like a field). -/
theorem C01_capture {m : Module} {o : Options} {src : String} {path : Option String} {out : Out}
    (hb : ShadowBenign m) (hg : gen m o src path = .ok out) : captureIssues out = [] := by
  have hp := gen_ok hg
  unfold captureIssues
  simp only [List.append_eq_nil_iff]
  refine ⟨?_, ?_⟩
  · apply filterMap_nil_of
    intro c hc
    rw [hp.consts] at hc
    obtain ⟨_, hl, hmn⟩ := hb.consts c hc
    have hnf : (out.structs.flatMap fun s => s.fields.map (·.name)).contains c.name = false := by
      cases hcc : (out.structs.flatMap fun s => s.fields.map (·.name)).contains c.name with
      | false => rfl
      | true => exact (hmn (field_name_is_member hg hcc)).elim
    rw [hl, hnf]
    rfl
  · apply filterMap_nil_of
    intro n hn
    have hmn := hb.generated n (generatedConstNames_sub hg n hn)
    cases hcc : (out.structs.flatMap fun s => s.fields.map (·.name)).contains n with
    | false => rfl
    | true => exact (hmn (field_name_is_member hg hcc)).elim

theorem not_mem_of_contains_false {α : Type} [BEq α] [LawfulBEq α] {l : List α} {a : α}
    (h : l.contains a = false) : a ∉ l := by
  intro hm
  rw [List.contains_iff_mem.mpr hm] at h
  cases h

def shadowBenignB (m : Module) : Bool :=
  (structTypeNames m).all (fun n => !allCrateNames.contains n && !preludeTypeNames.contains n) &&
  (consts m).all (fun c => !preludeValueNames.contains c.name && !hasLower c.name && !(memberNamesM m).contains (some c.name)) &&
  (generatedConstNamesM m).all (fun n => !(memberNamesM m).contains (some n))

theorem shadowBenignB_sound (m : Module) (h : shadowBenignB m = true) : ShadowBenign m := by
  unfold shadowBenignB at h
  simp only [Bool.and_eq_true, List.all_eq_true, Bool.not_eq_true'] at h
  refine ⟨fun n hn => ?_, fun c hc => ?_, fun n hn => ?_⟩
  · have := h.1.1 n hn
    exact ⟨not_mem_of_contains_false this.1, not_mem_of_contains_false this.2⟩
  · have := h.1.2 c hc
    exact ⟨not_mem_of_contains_false this.1.1, this.1.2, not_mem_of_contains_false this.2⟩
  · exact not_mem_of_contains_false (h.2 n hn)

/-! ### Putting the proved clauses together -/

/-- **C01** (partial): names, shadowing, derives, literals, identifiers and capture – six of the seven clause
groups of `Ext.RustStatic` – hold for every successfully generated module of a benign input. -/
theorem C01_static_partial {m : Module} {o : Options} {src : String} {path : Option String} {out : Out}
    (hn : namesBenignB m = true) (hd : deriveBenignB m o = true) (hs : shadowBenignB m = true)
    (hr : o.rustfmt = false) (hg : gen m o src path = .ok out) :
    nameIssues out = [] ∧ shadowIssues out = [] ∧ deriveIssues out = [] ∧ literalIssues out = [] ∧
      keywordIssues out = [] ∧ captureIssues out = [] :=
  ⟨C01_names (namesBenignB_sound m hn) hg, C01_shadow (shadowBenignB_sound m hs) hg, C01_derives_satisfiable' hd hg,
   C01_literals hg, C01_keywords hg hr, C01_capture (shadowBenignB_sound m hs) hg⟩

/-- non-vacuity: the example module of `C01Derive` satisfies both hypotheses -/
example : namesBenignB (C01DeriveExample.modl (.scalar ⟨.sint, 4⟩)) = true := by decide
example : shadowBenignB (C01DeriveExample.modl (.scalar ⟨.sint, 4⟩)) = true := by decide

end WgslVerif
