import WgslVerif.Lemmas.Gen
import WgslVerif.Props.C08
/-
C06 – Struct fields keep WGSL order, names and element types.

The specification is written without the generator's type mapping: both the WGSL member type and
the emitted Rust type are sent to a common `Shape` (what the type *denotes*: a scalar leaf or a
named struct, under a list of element counts, outermost first), and the property is the equality
of the two lists of (name, shape, runtime flag) – which pins count, order, names, element types,
and the runtime-array marking.

Conventions pinned here
* `vecN<T>` denotes `leaf T [N]`.
* `matCxR<T>` (C columns, R rows) denotes `leaf T [R, C]` in all three representations
  (`[[T; C]; R]`, `nalgebra::SMatrix<T, R, C>`, `glam::MatN` / `glam::DMatN` for C = R = N).
* `array<T, N>` prepends `N`; `atomic<T>` denotes the scalar `T`; a struct denotes `named name []`.
* a member of type `array<T>` (runtime-sized) is specified by the shape of `T` and flag `true`;
  the field has to be `Vec<e>` with `e` denoting that shape and `#[size(runtime)]`.
-/
namespace WgslVerif

/-! ## Specification -/

/-- what a type denotes: scalar leaf (Rust primitive name) or named struct, under element counts
(outermost first) -/
inductive Shape
  | leaf (prim : String) (dims : List Nat)
  | named (name : String) (dims : List Nat)
  deriving DecidableEq, Repr, Inhabited

/-- an array of `n` elements of the given shape -/
def Shape.push (n : Nat) : Shape → Shape
  | .leaf p d => .leaf p (n :: d)
  | .named s d => .named s (n :: d)

/-- a scalar leaf, and only that -/
def Shape.scalar? : Shape → Option String
  | .leaf p [] => some p
  | _ => none

/-- `glam::<s>`: component type and dimensions -/
def glamShape (s : String) : Option Shape :=
  if s = "Vec2" then some (.leaf "f32" [2])
  else if s = "Vec3" then some (.leaf "f32" [3])
  else if s = "Vec4" then some (.leaf "f32" [4])
  else if s = "DVec2" then some (.leaf "f64" [2])
  else if s = "DVec3" then some (.leaf "f64" [3])
  else if s = "DVec4" then some (.leaf "f64" [4])
  else if s = "UVec2" then some (.leaf "u32" [2])
  else if s = "UVec3" then some (.leaf "u32" [3])
  else if s = "UVec4" then some (.leaf "u32" [4])
  else if s = "IVec2" then some (.leaf "i32" [2])
  else if s = "IVec3" then some (.leaf "i32" [3])
  else if s = "IVec4" then some (.leaf "i32" [4])
  else if s = "Mat2" then some (.leaf "f32" [2, 2])
  else if s = "Mat3" then some (.leaf "f32" [3, 3])
  else if s = "Mat4" then some (.leaf "f32" [4, 4])
  else if s = "DMat2" then some (.leaf "f64" [2, 2])
  else if s = "DMat3" then some (.leaf "f64" [3, 3])
  else if s = "DMat4" then some (.leaf "f64" [4, 4])
  else none

/-- Rust side: the shape a Rust type expression denotes.  `Vec`, `Option` and unclassified types
denote nothing (a `Vec` is accepted at field level only, see `fieldDenote`). -/
def denote : RustTy → Option Shape
  | .prim s => some (.leaf s [])
  | .array t n => (denote t).map (Shape.push n)
  | .glam s => glamShape s
  | .nalgebraV t n => ((denote t).bind Shape.scalar?).map fun p => .leaf p [n]
  | .nalgebraM t r c => ((denote t).bind Shape.scalar?).map fun p => .leaf p [r, c]
  | .named s => some (.named s [])
  | .vec _ => none
  | .option _ => none
  | .unknown _ => none

/-- the Rust primitive that holds a WGSL scalar of the given kind and byte width -/
def primName (s : Scalar) : Option String :=
  match s.kind, s.width with
  | .float, 4 => some "f32"
  | .float, 8 => some "f64"
  | .sint, 4 => some "i32"
  | .uint, 4 => some "u32"
  | .sint, 2 => some "i16"
  | .uint, 2 => some "u16"
  | .sint, 1 => some "i8"
  | .uint, 1 => some "u8"
  | .bool, _ => some "bool"
  | _, _ => none

/-- WGSL side: the shape of a host-representable type (`none` for images, samplers, pointers,
runtime-sized or override-sized arrays inside a type, binding arrays, acceleration structures,
ray queries, and scalars without a Rust primitive).  Array element types are followed by fuel.

Matrices: WGSL matrices are float-valued (naga rejects any other component kind with
`TypeError::MatrixElementNotFloat`); only the byte width of the component is consulted. -/
def shapeOf (m : Module) : Nat → Ty → Option Shape
  | 0, _ => none
  | fuel + 1, ty =>
    match ty.inner with
    | .scalar s => (primName s).map fun p => .leaf p []
    | .atomic s => (primName s).map fun p => .leaf p []
    | .vector n s => (primName s).map fun p => .leaf p [n.toNat]
    | .matrix cols rows s => (primName ⟨.float, s.width⟩).map fun p => .leaf p [rows.toNat, cols.toNat]
    | .array base (.const n) _ => (m.types[base]?).bind fun bt => (shapeOf m fuel bt).map (Shape.push n)
    | .struct _ _ => ty.name.map fun n => .named n []
    | _ => none

/-- enough fuel for every array nesting the arena can hold -/
def shapeFuel (m : Module) : Nat := m.types.length + 1

/-- what a struct member asks of its field: name, shape and runtime flag.  For a member of
runtime-sized array type the shape is that of the *element* type and the flag is set. -/
def fieldSpec (m : Module) (mem : Member) : Option (String × Shape × Bool) :=
  mem.name.bind fun name =>
  (m.types[mem.ty]?).bind fun ty =>
    match ty.inner with
    | .array base .dynamic _ =>
      (m.types[base]?).bind fun bt => (shapeOf m (shapeFuel m) bt).map fun sh => (name, sh, true)
    | _ => (shapeOf m (shapeFuel m) ty).map fun sh => (name, sh, false)

/-- what an emitted field provides: a field marked `#[size(runtime)]` has to be a `Vec<e>` and
provides the shape of `e`; an unmarked field provides the shape of its type (never a `Vec`). -/
def fieldDenote (f : RField) : Option (String × Shape × Bool) :=
  match f.runtime, f.ty with
  | true, .vec e => (denote e).map fun sh => (f.name, sh, true)
  | true, _ => none
  | false, t => (denote t).map fun sh => (f.name, sh, false)

/-- the fields of `s` are the non-builtin members, in order, with the same names, shapes and
runtime flags (and every member has a specification at all) -/
def FieldsOk (m : Module) (members : List Member) (s : RStruct) : Prop :=
  s.fields.map fieldDenote = (members.filter fun mem => !isBuiltinMember mem).map (fieldSpec m) ∧
  ∀ mem ∈ members.filter (fun mem => !isBuiltinMember mem), (fieldSpec m mem).isSome = true

instance (m : Module) (members : List Member) (s : RStruct) : Decidable (FieldsOk m members s) := by
  unfold FieldsOk; infer_instance

/-- the members of the struct type named `name` (first in arena order) -/
def structMembersNamed (m : Module) (name : String) : Option (List Member) :=
  match (indexed m.types).find? (fun ht => structNameOf ht == some name) with
  | some ht =>
    match ht.2.inner with
    | .struct members _ => some members
    | _ => none
  | none => none

/-- an emitted struct has a WGSL struct of the same name, and its fields follow that struct's members -/
def StructOk (m : Module) (s : RStruct) : Prop :=
  match structMembersNamed m s.name with
  | some members => FieldsOk m members s
  | none => False

instance (m : Module) (s : RStruct) : Decidable (StructOk m s) :=
  match h : structMembersNamed m s.name with
  | some members => decidable_of_iff (FieldsOk m members s) (by unfold StructOk; rw [h])
  | none => isFalse (by unfold StructOk; rw [h]; exact id)

def C06Ok (m : Module) (out : Out) : Prop := ∀ s ∈ out.structs, StructOk m s

instance (m : Module) (out : Out) : Decidable (C06Ok m out) := by
  unfold C06Ok; infer_instance

/-! ## Leaf tables -/

theorem scalar_denote {s : Scalar} {r : RustTy} (h : rustScalarType s = .ok r) :
    ∃ p, primName s = some p ∧ r = .prim p := by
  obtain ⟨k, w⟩ := s
  unfold rustScalarType at h
  dsimp only at h
  split at h <;> first | (cases h; exact ⟨_, rfl, rfl⟩) | (cases h)

theorem rustVector_denote {n : VecSize} {s : Scalar} {r : RustTy} (h : rustVectorType n s = .ok r) :
    ∃ p, primName s = some p ∧ denote r = some (.leaf p [n.toNat]) := by
  unfold rustVectorType at h
  obtain ⟨t, ht, h⟩ := Except.bind_ok h
  obtain ⟨p, hp, rfl⟩ := scalar_denote ht
  cases h
  exact ⟨p, hp, rfl⟩

theorem nalgebraVector_denote {n : VecSize} {s : Scalar} {r : RustTy} (h : nalgebraVectorType n s = .ok r) :
    ∃ p, primName s = some p ∧ denote r = some (.leaf p [n.toNat]) := by
  unfold nalgebraVectorType at h
  obtain ⟨t, ht, h⟩ := Except.bind_ok h
  obtain ⟨p, hp, rfl⟩ := scalar_denote ht
  cases h
  exact ⟨p, hp, rfl⟩

theorem glamVector_denote {n : VecSize} {s : Scalar} {r : RustTy} (h : glamVectorType n s = .ok r) :
    ∃ p, primName s = some p ∧ denote r = some (.leaf p [n.toNat]) := by
  obtain ⟨k, w⟩ := s
  unfold glamVectorType at h
  dsimp only at h
  split at h <;> first | (cases h; exact ⟨_, rfl, rfl⟩) | exact rustVector_denote h

theorem rustMatrix_denote {rows cols : VecSize} {w : Nat} {r : RustTy} (h : rustMatrixType rows cols w = .ok r) :
    ∃ p, primName ⟨.float, w⟩ = some p ∧ denote r = some (.leaf p [rows.toNat, cols.toNat]) := by
  unfold rustMatrixType at h
  obtain ⟨t, ht, h⟩ := Except.bind_ok h
  obtain ⟨p, hp, rfl⟩ := scalar_denote ht
  cases h
  exact ⟨p, hp, rfl⟩

theorem nalgebraMatrix_denote {rows cols : VecSize} {w : Nat} {r : RustTy}
    (h : nalgebraMatrixType rows cols w = .ok r) :
    ∃ p, primName ⟨.float, w⟩ = some p ∧ denote r = some (.leaf p [rows.toNat, cols.toNat]) := by
  unfold nalgebraMatrixType at h
  obtain ⟨t, ht, h⟩ := Except.bind_ok h
  obtain ⟨p, hp, rfl⟩ := scalar_denote ht
  cases h
  exact ⟨p, hp, rfl⟩

theorem glamMatrix_denote {rows cols : VecSize} {w : Nat} {r : RustTy} (h : glamMatrixType rows cols w = .ok r) :
    ∃ p, primName ⟨.float, w⟩ = some p ∧ denote r = some (.leaf p [rows.toNat, cols.toNat]) := by
  unfold glamMatrixType at h
  split at h <;> first | (cases h; exact ⟨_, rfl, rfl⟩) | exact rustMatrix_denote h

/-! ## The type mapping preserves the denotation -/

/-- **C06** (types): whenever the generator produces a Rust type for a WGSL type, the WGSL type has
a shape and the Rust type denotes exactly that shape – for all three representations. -/
theorem C06_denote (m : Module) (repr : Repr3) : ∀ fuel ty r, rustType m repr fuel ty = .ok r →
    denote r = shapeOf m fuel ty ∧ (shapeOf m fuel ty).isSome = true := by
  intro fuel
  induction fuel with
  | zero => intro ty r h; rw [rustType] at h; cases h
  | succ fuel ih =>
    intro ty r h
    rw [rustType] at h
    rw [shapeOf]
    split at h
    case h_1 s hi =>
      obtain ⟨p, hp, rfl⟩ := scalar_denote h
      simp [hi, hp, denote]
    case h_2 n s hi =>
      have hv : ∃ p, primName s = some p ∧ denote r = some (.leaf p [n.toNat]) := by
        cases repr
        · exact rustVector_denote h
        · exact glamVector_denote h
        · exact nalgebraVector_denote h
      obtain ⟨p, hp, hr⟩ := hv
      simp [hi, hp, hr]
    case h_3 cols rows s hi =>
      have hv : ∃ p, primName ⟨.float, s.width⟩ = some p ∧
          denote r = some (.leaf p [rows.toNat, cols.toNat]) := by
        cases repr
        · exact rustMatrix_denote h
        · exact glamMatrix_denote h
        · exact nalgebraMatrix_denote h
      obtain ⟨p, hp, hr⟩ := hv
      simp [hi, hp, hr]
    case h_6 s hi =>
      obtain ⟨p, hp, rfl⟩ := scalar_denote h
      simp [hi, hp, denote]
    case h_9 base n stride hi =>
      split at h
      · rename_i bt hb
        obtain ⟨e, he, h⟩ := Except.bind_ok h
        cases h
        obtain ⟨h1, h2⟩ := ih bt e he
        simp only [hi, hb, Option.bind_some, denote, h1]
        cases hsh : shapeOf m fuel bt with
        | none => rw [hsh] at h2; cases h2
        | some sh => exact ⟨trivial, rfl⟩
      · cases h
    case h_12 members span hi =>
      split at h
      · rename_i n hn
        cases h
        simp [hi, hn, denote]
      · cases h
    all_goals first | (cases h) | (unfold todo at h; cases h)

/-! ## Fields -/

/-- one member: a successfully typed field provides what the member asks for -/
theorem member_field {m : Module} {o : Options} {len idx : Nat} {mem : Member} {rest : List Member}
    {fs : List RField} (h : structMembersFrom m o len idx (mem :: rest) = .ok fs) :
    ∃ f fs', fs = f :: fs' ∧ structMembersFrom m o len (idx + 1) rest = .ok fs' ∧
      fieldDenote f = fieldSpec m mem ∧ (fieldSpec m mem).isSome = true := by
  rw [structMembersFrom] at h
  obtain ⟨name, hn, h⟩ := Except.bind_ok h
  dsimp only at h
  have hname : mem.name = some name := by
    cases hmn : mem.name with
    | none => rw [hmn] at hn; cases hn
    | some n => rw [hmn] at hn; cases hn; rfl
  split at h
  case h_2 => obtain ⟨_, hc, _⟩ := Except.bind_ok h; cases hc
  rename_i ty htys
  obtain ⟨ty', hty', h⟩ := Except.bind_ok h
  cases hty'
  unfold fieldSpec
  simp only [hname, htys, Option.bind_some]
  have hfuel : typeFuel m = shapeFuel m := rfl
  split at h
  · -- runtime-sized array member
    rename_i base stride hi
    split at h
    · obtain ⟨_, hc, _⟩ := Except.bind_ok h; cases hc
    · split at h
      · rename_i bt hb
        obtain ⟨e, he, h⟩ := Except.bind_ok h
        obtain ⟨f, hf, h⟩ := Except.bind_ok h
        obtain ⟨fs', hfs, h⟩ := Except.bind_ok h
        cases hf; cases h
        obtain ⟨h1, h2⟩ := C06_denote m o.repr _ bt e he
        rw [hfuel] at h1 h2
        refine ⟨_, fs', rfl, hfs, ?_⟩
        simp only [hi, hb, Option.bind_some, fieldDenote, h1]
        cases hsh : shapeOf m (shapeFuel m) bt with
        | none => rw [hsh] at h2; cases h2
        | some sh => exact ⟨trivial, rfl⟩
      · obtain ⟨_, hc, _⟩ := Except.bind_ok h; cases hc
  · -- any other member
    rename_i hne
    obtain ⟨t, ht, h⟩ := Except.bind_ok h
    obtain ⟨f, hf, h⟩ := Except.bind_ok h
    obtain ⟨fs', hfs, h⟩ := Except.bind_ok h
    cases hf; cases h
    obtain ⟨h1, h2⟩ := C06_denote m o.repr _ ty t ht
    rw [hfuel] at h1 h2
    refine ⟨_, fs', rfl, hfs, ?_⟩
    have hm : ∀ {α : Type} (A : Nat → Nat → α) (B : α),
        (match ty.inner with
          | .array base .dynamic stride => A base stride
          | _ => B) = B := by
      intro α A B
      split
      · rename_i hi; exact (hne _ _ hi).elim
      · rfl
    rw [hm, fieldDenote]
    dsimp only
    rw [h1]
    cases hsh : shapeOf m (shapeFuel m) ty with
    | none => rw [hsh] at h2; cases h2
    | some sh => exact ⟨rfl, rfl⟩

theorem structMembersFrom_fields {m : Module} {o : Options} {len : Nat} :
    ∀ (l : List Member) (idx : Nat) (fs : List RField), structMembersFrom m o len idx l = .ok fs →
      fs.map fieldDenote = l.map (fieldSpec m) ∧ ∀ mem ∈ l, (fieldSpec m mem).isSome = true := by
  intro l
  induction l with
  | nil =>
    intro idx fs h
    rw [structMembersFrom] at h
    cases h
    exact ⟨rfl, fun _ hm => by cases hm⟩
  | cons mem rest ih =>
    intro idx fs h
    obtain ⟨f, fs', rfl, hrest, hf, hsome⟩ := member_field h
    obtain ⟨h1, h2⟩ := ih (idx + 1) fs' hrest
    refine ⟨by rw [List.map_cons, List.map_cons, hf, h1], fun x hx => ?_⟩
    rcases List.mem_cons.mp hx with rfl | hx
    · exact hsome
    · exact h2 x hx

/-- **C06** (per struct): the fields `rustStruct` emits are the non-builtin members in declaration
order, under the same names, denoting the members' shapes, with the runtime flag exactly on a
runtime-sized array member. -/
theorem C06_fields {m : Module} {o : Options} {gvt : List Nat} {h : Nat} {t : Ty} {all : List Member}
    {s : RStruct} (hs : rustStruct m o gvt h t all = .ok s) : FieldsOk m all s := by
  obtain ⟨name, fields, offs, _, hf, _, _, _, _, e⟩ := rustStruct_ok hs
  subst e
  exact structMembersFrom_fields _ 0 fields hf

/-! ## Whole output -/

theorem filterMap_nodup_inj {α β : Type} {f : α → Option β} :
    ∀ {l : List α}, (l.filterMap f).Nodup → ∀ {a b : α} {x : β}, a ∈ l → b ∈ l →
      f a = some x → f b = some x → a = b := by
  intro l
  induction l with
  | nil => intro _ a b x ha; cases ha
  | cons c l ih =>
    intro h a b x ha hb fa fb
    rw [List.filterMap_cons] at h
    rcases List.mem_cons.mp ha with rfl | ha' <;> rcases List.mem_cons.mp hb with rfl | hb'
    · rfl
    · rw [fa] at h
      exact absurd (List.mem_filterMap.mpr ⟨b, hb', fb⟩) (List.nodup_cons.mp h).1
    · rw [fb] at h
      exact absurd (List.mem_filterMap.mpr ⟨a, ha', fa⟩) (List.nodup_cons.mp h).1
    · have h' : (l.filterMap f).Nodup := by
        cases hc : f c with
        | none => rw [hc] at h; exact h
        | some y => rw [hc] at h; exact (List.nodup_cons.mp h).2
      exact ih h' ha' hb' fa fb

/-- **C06**: every struct of a successfully generated module has a WGSL struct of the same name
whose non-builtin members it lists in order, with the same names and element types. -/
theorem C06 {m : Module} {o : Options} {src : String} {path : Option String} {out : Out}
    (hg : gen m o src path = .ok out)
    (hnames : ((indexed m.types).filterMap structNameOf).Nodup) : C06Ok m out := by
  intro s hs
  have hp := gen_ok hg
  obtain ⟨hd, ty, members, span, hin, _, hi, hr⟩ := structs_mem hp.structs hs
  obtain ⟨name, _, _, hn, _, _, _, _, _, e⟩ := rustStruct_ok hr
  have hsn : s.name = name := by rw [e]
  have hname : structNameOf (hd, ty) = some s.name := by
    unfold structNameOf; simp only [hi]; rw [hn, hsn]
  unfold StructOk structMembersNamed
  cases hfind : (indexed m.types).find? (fun ht => structNameOf ht == some s.name) with
  | none =>
    have := List.find?_eq_none.mp hfind (hd, ty) hin
    simp [hname] at this
  | some ht' =>
    have hmem' := List.mem_of_find?_eq_some hfind
    have hp' := List.find?_some hfind
    have heq : ht' = (hd, ty) :=
      filterMap_nodup_inj hnames hmem' hin (by simpa using hp') hname
    subst heq
    simp only [hi]
    exact C06_fields hr

theorem C06' {m : Module} {o : Options} {src : String} {path : Option String} {out : Out}
    (ha : TypeArenaOk m) (hg : gen m o src path = .ok out) : C06Ok m out :=
  C06 hg ha.structNamesDistinct

/-! ## Non-vacuity -/

namespace C06Example

def f32 : Scalar := ⟨.float, 4⟩

def ty (name : Option String) (inner : TypeInner) : Ty :=
  { name := name, inner := inner, size := 0, laySize := 0, layAlign := 0, snake := "" }

/-- ```wgsl
struct Inner { x: f32 }
struct Outer {
  pos: vec3<f32>, m: mat2x3<f32>, arr: array<vec4<f32>, 3>, inner: Inner,
  @builtin(vertex_index) idx: u32, tail: array<vec4<f32>>,
}
``` -/
def outerMembers : List Member :=
  [ ⟨some "pos", 1, none, 0⟩, ⟨some "m", 2, none, 16⟩, ⟨some "arr", 4, none, 48⟩,
    ⟨some "inner", 5, none, 96⟩, ⟨some "idx", 8, some (.builtin "VertexIndex"), 100⟩,
    ⟨some "tail", 6, none, 112⟩ ]

def modl : Module :=
  { types :=
      [ ty none (.scalar f32),                                   -- 0
        ty none (.vector .tri f32),                              -- 1
        ty none (.matrix .bi .tri f32),                          -- 2  mat2x3: 2 columns, 3 rows
        ty none (.vector .quad f32),                             -- 3
        ty none (.array 3 (.const 3) 16),                        -- 4
        ty (some "Inner") (.struct [⟨some "x", 0, none, 0⟩] 4),  -- 5
        ty none (.array 3 .dynamic 16),                          -- 6
        ty (some "Outer") (.struct outerMembers 128),            -- 7
        ty none (.scalar ⟨.uint, 4⟩) ],                          -- 8
    globals := [], consts := [], overrides := [], functions := [], entries := [] }

def opts (repr : Repr3) : Options :=
  { bmVertex := false, bmHost := false, encase := true, serde := false, repr := repr,
    rustfmt := false, validate := false }

def outer (fields : List RField) : RStruct :=
  { name := "Outer", reprC := false, derives := [], fields := fields, asserts := [] }

def glamFields : List RField :=
  [ ⟨"pos", .glam "Vec3", false⟩,
    ⟨"m", .array (.array (.prim "f32") 2) 3, false⟩,
    ⟨"arr", .array (.glam "Vec4") 3, false⟩,
    ⟨"inner", .named "Inner", false⟩,
    ⟨"tail", .vec (.glam "Vec4"), true⟩ ]

/-- the model's fields under glam (mat2x3 has no glam type: falls back to `[[f32; 2]; 3]`) -/
example : structMembers modl (opts .glam) (outerMembers.filter fun mem => !isBuiltinMember mem)
    = .ok glamFields := by rfl

example : FieldsOk modl outerMembers (outer glamFields) := by decide

/-- the specified (name, shape, runtime) list itself -/
example : (outerMembers.filter fun mem => !isBuiltinMember mem).map (fieldSpec modl) =
    [ some ("pos", .leaf "f32" [3], false),
      some ("m", .leaf "f32" [3, 2], false),
      some ("arr", .leaf "f32" [3, 4], false),
      some ("inner", .named "Inner" [], false),
      some ("tail", .leaf "f32" [4], true) ] := by decide

/-- the same members under all three representations -/
def check (repr : Repr3) : Bool :=
  match rustStruct modl (opts repr) [] 7 (ty (some "Outer") (.struct outerMembers 128)) outerMembers with
  | .ok s => decide (FieldsOk modl outerMembers s) &&
      decide (C06Ok modl { (default : Out) with structs := [s] })
  | .error _ => false

example : check .rust = true := by decide
example : check .glam = true := by decide
example : check .nalgebra = true := by decide

/-- `FieldsOk` rejects: swapped fields, a renamed field, a transposed matrix, a wrong vector
width, a lost runtime flag, a runtime array that is not a `Vec`, a dropped field, an extra field
for the builtin member, a nested struct of another name. -/
example : ¬ FieldsOk modl outerMembers (outer
    [ ⟨"m", .array (.array (.prim "f32") 2) 3, false⟩, ⟨"pos", .glam "Vec3", false⟩,
      ⟨"arr", .array (.glam "Vec4") 3, false⟩, ⟨"inner", .named "Inner", false⟩,
      ⟨"tail", .vec (.glam "Vec4"), true⟩ ]) := by decide
example : ¬ FieldsOk modl outerMembers (outer
    [ ⟨"position", .glam "Vec3", false⟩, ⟨"m", .array (.array (.prim "f32") 2) 3, false⟩,
      ⟨"arr", .array (.glam "Vec4") 3, false⟩, ⟨"inner", .named "Inner", false⟩,
      ⟨"tail", .vec (.glam "Vec4"), true⟩ ]) := by decide
example : ¬ FieldsOk modl outerMembers (outer
    [ ⟨"pos", .glam "Vec3", false⟩, ⟨"m", .array (.array (.prim "f32") 3) 2, false⟩,
      ⟨"arr", .array (.glam "Vec4") 3, false⟩, ⟨"inner", .named "Inner", false⟩,
      ⟨"tail", .vec (.glam "Vec4"), true⟩ ]) := by decide
example : ¬ FieldsOk modl outerMembers (outer
    [ ⟨"pos", .glam "Vec4", false⟩, ⟨"m", .array (.array (.prim "f32") 2) 3, false⟩,
      ⟨"arr", .array (.glam "Vec4") 3, false⟩, ⟨"inner", .named "Inner", false⟩,
      ⟨"tail", .vec (.glam "Vec4"), true⟩ ]) := by decide
example : ¬ FieldsOk modl outerMembers (outer
    [ ⟨"pos", .glam "Vec3", false⟩, ⟨"m", .array (.array (.prim "f32") 2) 3, false⟩,
      ⟨"arr", .array (.glam "Vec4") 3, false⟩, ⟨"inner", .named "Inner", false⟩,
      ⟨"tail", .vec (.glam "Vec4"), false⟩ ]) := by decide
example : ¬ FieldsOk modl outerMembers (outer
    [ ⟨"pos", .glam "Vec3", false⟩, ⟨"m", .array (.array (.prim "f32") 2) 3, false⟩,
      ⟨"arr", .array (.glam "Vec4") 3, false⟩, ⟨"inner", .named "Inner", false⟩,
      ⟨"tail", .glam "Vec4", true⟩ ]) := by decide
example : ¬ FieldsOk modl outerMembers (outer
    [ ⟨"pos", .glam "Vec3", false⟩, ⟨"m", .array (.array (.prim "f32") 2) 3, false⟩,
      ⟨"arr", .array (.glam "Vec4") 3, false⟩, ⟨"inner", .named "Inner", false⟩ ]) := by decide
example : ¬ FieldsOk modl outerMembers (outer
    [ ⟨"pos", .glam "Vec3", false⟩, ⟨"m", .array (.array (.prim "f32") 2) 3, false⟩,
      ⟨"arr", .array (.glam "Vec4") 3, false⟩, ⟨"inner", .named "Inner", false⟩,
      ⟨"idx", .prim "u32", false⟩, ⟨"tail", .vec (.glam "Vec4"), true⟩ ]) := by decide
example : ¬ FieldsOk modl outerMembers (outer
    [ ⟨"pos", .glam "Vec3", false⟩, ⟨"m", .array (.array (.prim "f32") 2) 3, false⟩,
      ⟨"arr", .array (.glam "Vec4") 3, false⟩, ⟨"inner", .named "Outer", false⟩,
      ⟨"tail", .vec (.glam "Vec4"), true⟩ ]) := by decide

/-- the corner documented at `shapeOf`: the generator does not look at a matrix' component kind
(naga only builds float matrices); neither does the specification -/
example : rustType modl .rust 1 (ty none (.matrix .bi .bi ⟨.sint, 4⟩))
    = .ok (.array (.array (.prim "f32") 2) 2) := by rfl
example : shapeOf modl 1 (ty none (.matrix .bi .bi ⟨.sint, 4⟩)) = some (.leaf "f32" [2, 2]) := by decide

/-- `C06Ok` rejects a struct whose name is no WGSL struct -/
example : ¬ C06Ok modl { (default : Out) with structs := [{ outer glamFields with name := "Other" }] } := by
  decide

end C06Example

end WgslVerif
