import WgslVerif.Lemmas.Gen
import WgslVerif.Props.C14
/-
C07 – Vertex buffer layouts mirror the vertex input structs
(relative to `WgpuVertex.formatInfo`, the table of `wgpu_types::VertexFormat`).

Offsets and stride are emitted symbolically (`offset_of!(S, field)`, `size_of::<S>()`), so they
are the Rust field offset / struct size by construction; their values are evaluated by rustc
(batch harness).  Partial: a vertex entry with a bare `@location` parameter outside any struct
gets no attribute for it (recorded finding); `C07_inputs_partial` excludes it explicitly.
-/
namespace WgslVerif

namespace WgpuVertex
/-- `wgpu_types::VertexFormat` variant ↦ (scalar kind, width in bytes, components)
(`NumericType::from_vertex_format` / `VertexFormat::size`) -/
def formatInfo : String → Option (ScalarKind × Nat × Nat)
  | "Sint32" => some (.sint, 4, 1) | "Uint32" => some (.uint, 4, 1)
  | "Float32" => some (.float, 4, 1) | "Float64" => some (.float, 8, 1)
  | "Sint8x2" => some (.sint, 1, 2) | "Uint8x2" => some (.uint, 1, 2)
  | "Sint16x2" => some (.sint, 2, 2) | "Uint16x2" => some (.uint, 2, 2)
  | "Uint32x2" => some (.uint, 4, 2) | "Sint32x2" => some (.sint, 4, 2)
  | "Float32x2" => some (.float, 4, 2) | "Float64x2" => some (.float, 8, 2)
  | "Uint32x3" => some (.uint, 4, 3) | "Sint32x3" => some (.sint, 4, 3)
  | "Float32x3" => some (.float, 4, 3) | "Float64x3" => some (.float, 8, 3)
  | "Sint8x4" => some (.sint, 1, 4) | "Uint8x4" => some (.uint, 1, 4)
  | "Sint16x4" => some (.sint, 2, 4) | "Uint16x4" => some (.uint, 2, 4)
  | "Uint32x4" => some (.uint, 4, 4) | "Sint32x4" => some (.sint, 4, 4)
  | "Float32x4" => some (.float, 4, 4) | "Float64x4" => some (.float, 8, 4)
  | _ => none
end WgpuVertex

/-- (scalar kind, width, component count) of a WGSL scalar or vector type -/
def numericOf (ty : Ty) : Option (ScalarKind × Nat × Nat) :=
  match ty.inner with
  | .scalar s => some (s.kind, s.width, 1)
  | .vector n s => some (s.kind, s.width, n.toNat)
  | _ => none

/-- **C07** (format): the chosen vertex format has the same scalar kind, width and component
count as the WGSL type – for every type the generator accepts. -/
theorem C07_format (ty : Ty) (f : String) (h : vertexFormat ty = .ok f) :
    WgpuVertex.formatInfo f = numericOf ty := by
  unfold vertexFormat at h
  unfold numericOf
  cases hi : ty.inner <;> rw [hi] at h <;> simp only at h
  case scalar s =>
    obtain ⟨k, w⟩ := s
    cases k <;> simp only at h <;>
      first
        | (split at h <;> first
            | (injection h with h; subst h; simp_all [WgpuVertex.formatInfo])
            | (simp only [todo] at h; cases h))
        | (simp only [todo] at h; cases h)
  case vector n s =>
    obtain ⟨k, w⟩ := s
    cases n <;> simp only at h <;> cases k <;> (try simp only at h) <;>
      first
        | (split at h <;> first
            | (injection h with h; subst h; simp_all [WgpuVertex.formatInfo, VecSize.toNat])
            | (simp only [todo] at h; cases h))
        | (simp only [todo] at h; cases h)
  all_goals (first | (cases h) | (unfold todo at h; cases h))

/-- what the property demands of one generated `impl S { VERTEX_ATTRIBUTES; vertex_buffer_layout }` -/
structure VertexStructOk (m : Module) (v : RVertex) : Prop where
  /-- `S` is a struct of the module; exactly one attribute per `@location` member, in member order,
  carrying that member's location and the offset of the field of the same name -/
  attrs : ∃ (h : Nat) (ty : Ty) (members : List Member) (span : Nat), m.types[h]? = some ty ∧ ty.inner = .struct members span ∧ ty.name = some v.name ∧
    v.attrs.map (fun a => (a.location, some a.field, a.ofStruct)) =
      (members.filterMap fun mem => match mem.binding with
        | some (.location l) => some (l, mem.name, v.name)
        | _ => none) ∧
    /- … whose format has the member type's scalar kind, width and component count -/
    v.attrs.map (fun a => WgpuVertex.formatInfo a.format) =
      (members.filterMap fun mem => match mem.binding with
        | some (.location _) => some ((m.types[mem.ty]?).bind numericOf)
        | _ => none)
  count : v.count = v.attrs.length
  /-- stride is `size_of::<S>()`, the layout refers to `S::VERTEX_ATTRIBUTES` -/
  self : v.strideOf = v.name ∧ v.attrsOf = v.name

theorem locatedMembers_spec {members : List Member} {fields : List (Nat × Member)}
    (h : locatedMembers members = .ok fields) :
    fields = members.filterMap fun mem => match mem.binding with
      | some (.location l) => some (l, mem)
      | _ => none := by
  induction members generalizing fields with
  | nil => unfold locatedMembers at h; injection h with h; subst h; rfl
  | cons x xs ih =>
    unfold locatedMembers at h
    rw [List.filterMap_cons]
    cases hb : x.binding with
    | none => rw [hb] at h; cases h
    | some b =>
      rw [hb] at h
      cases b with
      | builtin t => simp only at h ⊢; exact ih h
      | location l =>
        simp only at h ⊢
        obtain ⟨r, hr, h⟩ := Except.bind_ok h
        injection h with h; subst h
        rw [ih hr]

/-- per vertex-entry helper: one buffer per struct parameter in parameter order, each with its own
step-mode parameter; `N` = their number -/
def VertexEntryOk (m : Module) (e : EntryPoint) (v : RVertexEntry) : Prop :=
  v.fnName = e.name ++ "_entry" ∧ v.entryConst = "ENTRY_" ++ e.upper ∧
  v.n = v.buffers.length ∧
  v.buffers.map (fun b => some b.1) =
    ((e.fn.args.filter fun a => a.2.isNone).filter (isStructArg m)).map (fun a => (m.types[a.1]?).bind (·.name)) ∧
  v.params.map (·.1) = v.buffers.map (·.2) ++ (if m.overrides.isEmpty then [] else ["overrides"])

theorem vertexInputOf_name {m : Module} {a : Nat × Option Binding} {vi : VertexInput}
    (h : vertexInputOf m a = .ok (some vi)) : (m.types[a.1]?).bind (·.name) = some vi.name ∧ vi.ty = a.1 ∧
      ∃ ty members span, m.types[a.1]? = some ty ∧ ty.inner = .struct members span ∧
        locatedMembers members = .ok vi.fields ∧ vi.snake = ty.snake := by
  unfold vertexInputOf at h
  cases hty : m.types[a.1]? with
  | none => rw [hty] at h; cases h
  | some t =>
    rw [hty] at h
    simp only at h
    split at h
    · rename_i members span hi
      obtain ⟨name, hn, h⟩ := Except.bind_ok h
      obtain ⟨fields, hf, h⟩ := Except.bind_ok h
      injection h with h; injection h with h; subst h
      unfold unwrapName at hn
      cases htn : t.name with
      | none => rw [htn] at hn; cases hn
      | some n =>
        rw [htn] at hn; injection hn with hn; subst hn
        exact ⟨by simp [htn], rfl, t, members, span, rfl, hi, hf, rfl⟩
    · injection h with h; cases h

end WgslVerif

namespace WgslVerif

theorem dedupByName_sub (l : List VertexInput) : ∀ x ∈ dedupByName l, x ∈ l := by
  fun_induction dedupByName l with
  | case1 => intro x hx; exact hx
  | case2 a => intro x hx; exact hx
  | case3 a b rest heq ih =>
    intro x hx
    have := ih x hx
    rcases List.mem_cons.mp this with e | h
    · exact e ▸ List.mem_cons_self
    · exact List.mem_cons_of_mem _ (List.mem_cons_of_mem _ h)
  | case4 a b rest hne ih =>
    intro x hx
    rcases List.mem_cons.mp hx with e | h
    · exact e ▸ List.mem_cons_self
    · exact List.mem_cons_of_mem _ (ih x h)

/-- every vertex input struct the generator emits methods for is a struct parameter of some vertex entry -/
theorem getVertexInputStructs_mem {m : Module} {inputs : List VertexInput}
    (h : getVertexInputStructs m = .ok inputs) (inp : VertexInput) (hi : inp ∈ inputs) :
    ∃ e ∈ m.entries, e.stage = .vertex ∧ ∃ a ∈ e.fn.args, a.2 = none ∧ vertexInputOf m a = .ok (some inp) := by
  unfold getVertexInputStructs at h
  obtain ⟨per, hper, h⟩ := Except.bind_ok h
  injection h with h; subst h
  have h1 := dedupByName_sub _ inp hi
  have h2 : inp ∈ per.flatten := (List.mem_mergeSort).mp h1
  obtain ⟨l, hl, hil⟩ := List.mem_flatten.mp h2
  obtain ⟨e, he, hfe⟩ := mapM_ok_mem hper l hl
  obtain ⟨hem, hst⟩ := List.mem_filter.mp he
  unfold vertexEntryStructs at hfe
  obtain ⟨a, ha, hfa⟩ := filterMapM_ok_mem hfe inp hil
  obtain ⟨ham, hab⟩ := List.mem_filter.mp ha
  refine ⟨e, hem, by simpa using hst, a, ham, ?_, hfa⟩
  cases h2' : a.2 with
  | none => rfl
  | some b => rw [h2'] at hab; cases hab

/-- **C07** (attribute tables): every generated `impl S` block mirrors struct `S`. -/
theorem C07_structs {m : Module} {o : Options} {src : String} {path : Option String} {out : Out}
    (hg : gen m o src path = .ok out) (v : RVertex) (hv : v ∈ out.vertex) : VertexStructOk m v := by
  have hp := gen_ok hg
  have hvx := hp.vertex
  unfold vertexStructMethods at hvx
  obtain ⟨inputs, hin, hvx⟩ := Except.bind_ok hvx
  obtain ⟨inp, hinp, hf⟩ := mapM_ok_mem hvx v hv
  obtain ⟨attrs, hattrs, hf⟩ := Except.bind_ok hf
  injection hf with hf; subst hf
  obtain ⟨e, _, _, a, _, _, hvi⟩ := getVertexInputStructs_mem hin inp hinp
  obtain ⟨hname, _, ty, members, span, hty, hinner, hloc, _⟩ := vertexInputOf_name hvi
  have hfields := locatedMembers_spec hloc
  have htn : ty.name = some inp.name := by rw [hty] at hname; simpa using hname
  refine ⟨⟨a.1, ty, members, span, hty, hinner, htn, ?_, ?_⟩, ?_, rfl, rfl⟩
  · -- locations, field names, struct
    have : attrs.map (fun a => (a.location, some a.field, a.ofStruct)) =
        inp.fields.map (fun lm => (lm.1, lm.2.name, inp.name)) := by
      refine mapM_ok_map_eq hattrs (fun lm _ at' hat => ?_)
      obtain ⟨fname, hfn, hat⟩ := Except.bind_ok hat
      obtain ⟨mty, _, hat⟩ := Except.bind_ok hat
      obtain ⟨fmt, _, hat⟩ := Except.bind_ok hat
      injection hat with hat; subst hat
      unfold unwrapName at hfn
      cases hn : lm.2.name with
      | none => rw [hn] at hfn; cases hfn
      | some n => rw [hn] at hfn; injection hfn with hfn; subst hfn; rfl
    simp only
    rw [this, hfields, List.map_filterMap]
    congr 1
    funext mem
    cases mem.binding with
    | none => rfl
    | some b => cases b <;> rfl
  · have : attrs.map (fun a => WgpuVertex.formatInfo a.format) =
        inp.fields.map (fun lm => (m.types[lm.2.ty]?).bind numericOf) := by
      refine mapM_ok_map_eq hattrs (fun lm _ at' hat => ?_)
      obtain ⟨fname, _, hat⟩ := Except.bind_ok hat
      obtain ⟨mty, hmty, hat⟩ := Except.bind_ok hat
      obtain ⟨fmt, hfmt, hat⟩ := Except.bind_ok hat
      injection hat with hat; subst hat
      simp only
      unfold typeAt at hmty
      cases hmt : m.types[lm.2.ty]? with
      | none => rw [hmt] at hmty; cases hmty
      | some t =>
        rw [hmt] at hmty; injection hmty with hmty; subst hmty
        simp [C07_format t fmt hfmt]
    simp only
    rw [this, hfields, List.map_filterMap]
    congr 1
    funext mem
    cases mem.binding with
    | none => rfl
    | some b => cases b <;> rfl
  · simp only
    rw [(mapM_ok_spec hattrs).1]

end WgslVerif

namespace WgslVerif

/-- a successful `filterMapM vertexInputOf` keeps, in order, exactly the struct arguments -/
theorem vertexInputs_names {m : Module} :
    ∀ {args : List (Nat × Option Binding)} {inputs : List VertexInput},
      args.filterMapM (vertexInputOf m) = .ok inputs →
      inputs.map (fun i => some i.name) = (args.filter (isStructArg m)).map (fun a => (m.types[a.1]?).bind (·.name)) := by
  intro args
  induction args with
  | nil => intro inputs h; rw [List.filterMapM_nil] at h; injection h with h; subst h; rfl
  | cons a as ih =>
    intro inputs h
    obtain ⟨ob, bs, hfa, hbs, e⟩ := filterMapM_ok_cons h
    subst e
    have hsome := vertexInputOf_isSome hfa
    rw [List.filter_cons, List.map_append, ih hbs]
    cases ob with
    | none =>
      simp only [Option.isSome_none] at hsome
      simp [← hsome]
    | some vi =>
      simp only [Option.isSome_some] at hsome
      obtain ⟨hname, _⟩ := vertexInputOf_name hfa
      simp [← hsome, hname]

/-- **C07** (entry helpers): each vertex entry helper yields one buffer layout per struct
parameter, in parameter order, each driven by its own step-mode parameter; `N` is their number;
the helper refers to the entry's own `ENTRY_*` constant. -/
theorem C07_entries {m : Module} {o : Options} {src : String} {path : Option String} {out : Out}
    (hg : gen m o src path = .ok out) :
    out.vertexEntries.map (fun v => (v.fnName, v.entryConst, v.n, v.buffers.map (fun b => some b.1),
        v.params.map (·.1) == v.buffers.map (·.2) ++ (if m.overrides.isEmpty then [] else ["overrides"]))) =
      (m.entries.filter fun e => e.stage == .vertex).map fun e =>
        (e.name ++ "_entry", "ENTRY_" ++ e.upper, structParamCount m e,
          ((e.fn.args.filter fun a => a.2.isNone).filter (isStructArg m)).map (fun a => (m.types[a.1]?).bind (·.name)),
          true) := by
  have hp := gen_ok hg
  have hv := hp.vertexEntries
  unfold vertexEntries at hv
  refine mapM_ok_map_eq hv (fun e _ v hve => ?_)
  obtain ⟨inputs, hin, hve⟩ := Except.bind_ok hve
  injection hve with hve; subst hve
  have hlen := vertexEntryStructs_length hin
  unfold vertexEntryStructs at hin
  have hnames := vertexInputs_names hin
  simp only [Prod.mk.injEq, true_and]
  refine ⟨hlen, ?_, ?_⟩
  · simpa [List.map_map, Function.comp_def] using hnames
  · unfold overridesParam
    by_cases he : m.overrides.isEmpty = true <;> simp [he, List.map_map, Function.comp_def]

end WgslVerif
