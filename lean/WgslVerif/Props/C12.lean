import WgslVerif.Lemmas.Gen
/-
C12 – Override constants reach the pipeline under the right key and value.

`nagaKey` is the key naga 24's `process_overrides` looks up for an override
(`back/pipeline_constants.rs`: `id.to_string()` when `@id` is given, the name otherwise);
validated against the real `process_overrides` by the harness.
-/
namespace WgslVerif

/-- the key naga's override resolution looks up -/
def nagaKey (ov : Override) : Option String :=
  match ov.id with
  | some i => some (toString i)
  | none => ov.name

/-- Rust primitive of a (scalar) override type -/
def scalarPrim (s : Scalar) : Option RustTy :=
  match s.kind, s.width with
  | .bool, _ => some (.prim "bool")
  | .sint, 4 => some (.prim "i32")
  | .uint, 4 => some (.prim "u32")
  | .float, 4 => some (.prim "f32")
  | .float, 8 => some (.prim "f64")
  | _, _ => none

def overridePrim (m : Module) (ov : Override) : Option RustTy :=
  match m.types[ov.ty]? with
  | some t =>
    match t.inner with
    | .scalar s => scalarPrim s
    | _ => none
  | none => none

/-- how a field value becomes the `f64` the pipeline expects: booleans as 1/0, numbers cast -/
def convOf (m : Module) (ov : Override) : Conv := if isBoolScalar m ov.ty then .bool else .cast

structure C12Ok (m : Module) (out : Out) : Prop where
  /-- the struct exists iff the shader has overrides -/
  exists_iff : out.overrides.isSome = !m.overrides.isEmpty
  /-- one field per override, of the matching scalar type, optional exactly when it has a default -/
  fields : ∀ ro, out.overrides = some ro →
    ro.fields.map (fun f => (some f.1, some f.2)) =
      m.overrides.map (fun ov => (ov.name,
        (overridePrim m ov).map fun t => if ov.hasInit then RustTy.option t else t))
  /-- every required override is always inserted, under naga's key, from its own field -/
  required : ∀ ro, out.overrides = some ro →
    ro.required.map (fun e => (some e.key, some e.field, e.conv)) =
      (m.overrides.filter fun ov => !ov.hasInit).map (fun ov => (nagaKey ov, ov.name, convOf m ov))
  /-- every optional override is inserted only when set, under naga's key, from its own field -/
  optional : ∀ ro, out.overrides = some ro →
    ro.optional.map (fun e => (some e.key, some e.field, e.conv)) =
      (m.overrides.filter fun ov => ov.hasInit).map (fun ov => (nagaKey ov, ov.name, convOf m ov))
  /-- vertex and fragment entry helpers pass the map through iff the shader has overrides -/
  passthrough : (∀ v ∈ out.vertexEntries, v.constants = if m.overrides.isEmpty then .default else .overrides) ∧
    (∀ f ∈ out.fragmentEntries, f.constants = if m.overrides.isEmpty then .default else .overrides)

instance (m : Module) (out : Out) : Decidable (C12Ok m out) :=
  decidable_of_iff
    ((out.overrides.isSome = !m.overrides.isEmpty) ∧
     (∀ ro, out.overrides = some ro →
        ro.fields.map (fun f => (some f.1, some f.2)) =
          m.overrides.map (fun ov => (ov.name,
            (overridePrim m ov).map fun t => if ov.hasInit then RustTy.option t else t))) ∧
     (∀ ro, out.overrides = some ro →
        ro.required.map (fun e => (some e.key, some e.field, e.conv)) =
          (m.overrides.filter fun ov => !ov.hasInit).map (fun ov => (nagaKey ov, ov.name, convOf m ov))) ∧
     (∀ ro, out.overrides = some ro →
        ro.optional.map (fun e => (some e.key, some e.field, e.conv)) =
          (m.overrides.filter fun ov => ov.hasInit).map (fun ov => (nagaKey ov, ov.name, convOf m ov))) ∧
     ((∀ v ∈ out.vertexEntries, v.constants = if m.overrides.isEmpty then .default else .overrides) ∧
      (∀ f ∈ out.fragmentEntries, f.constants = if m.overrides.isEmpty then .default else .overrides)))
    ⟨fun ⟨a, b, c, d, e⟩ => ⟨a, b, c, d, e⟩, fun ⟨a, b, c, d, e⟩ => ⟨a, b, c, d, e⟩⟩

theorem overrideEntry_spec {m : Module} {ov : Override} {e : ROverrideEntry}
    (h : overrideEntry m ov = .ok e) :
    (some e.key, some e.field, e.conv) = (nagaKey ov, ov.name, convOf m ov) := by
  unfold overrideEntry at h
  obtain ⟨key, hk, h⟩ := Except.bind_ok h
  obtain ⟨name, hn, h⟩ := Except.bind_ok h
  injection h with h; subst h
  unfold overrideKey at hk
  unfold nagaKey convOf
  cases hname : ov.name with
  | none => rw [hname] at hk; cases hk
  | some n =>
    rw [hname] at hk hn
    simp only [unwrapName] at hn
    injection hn with hn; subst hn
    cases hid : ov.id with
    | none => rw [hid] at hk; injection hk with hk; subst hk; rfl
    | some i => rw [hid] at hk; injection hk with hk; subst hk; rfl

theorem rustScalarType_prim {s : Scalar} {t : RustTy} (h : rustScalarType s = .ok t)
    (hs : (scalarPrim s).isSome = true) : scalarPrim s = some t := by
  obtain ⟨k, w⟩ := s
  unfold scalarPrim at hs ⊢
  unfold rustScalarType at h
  cases k <;> simp only at h hs ⊢
  all_goals first
    | (injection h with h; subst h; rfl)
    | (cases hs)
    | (split at hs <;> first
        | (split at h <;> simp_all)
        | simp_all)

/-- for the scalar types WGSL allows on overrides, the field type is the matching primitive -/
theorem overrideFieldType_spec {m : Module} {ov : Override} {t : RustTy}
    (h : overrideFieldType m ov = .ok t) (hs : (overridePrim m ov).isSome = true) :
    overridePrim m ov = some t := by
  unfold overrideFieldType at h
  unfold overridePrim at hs ⊢
  cases hty : m.types[ov.ty]? with
  | none => rw [hty] at h; cases h
  | some ty =>
    simp only [hty] at h hs ⊢
    unfold typeFuel rustType at h
    cases hi : ty.inner with
    | scalar s =>
      simp only [hi] at h hs ⊢
      exact rustScalarType_prim h hs
    | _ => simp only [hi] at hs; cases hs

/-- hypothesis about naga (checked on every dumped module): overrides are named scalars of type
bool / i32 / u32 / f32 (/ f64) -/
def OverridesScalar (m : Module) : Prop :=
  ∀ ov ∈ m.overrides, (overridePrim m ov).isSome = true ∧ ov.name.isSome = true

instance (m : Module) : Decidable (OverridesScalar m) := by unfold OverridesScalar; infer_instance

/-- **C12** -/
theorem C12 {m : Module} {o : Options} {src : String} {path : Option String} {out : Out}
    (hs : OverridesScalar m) (hg : gen m o src path = .ok out) : C12Ok m out := by
  have hp := gen_ok hg
  have hov := hp.overrides
  unfold pipelineOverridableConstants at hov
  obtain ⟨fields, hfields, hov⟩ := Except.bind_ok hov
  obtain ⟨required, hreq, hov⟩ := Except.bind_ok hov
  obtain ⟨optional, hopt, hov⟩ := Except.bind_ok hov
  have hlen : fields.length = m.overrides.length := (mapM_ok_spec hfields).1
  have hfs : fields.map (fun f => (some f.1, some f.2)) =
      m.overrides.map (fun ov => (ov.name,
        (overridePrim m ov).map fun t => if ov.hasInit then RustTy.option t else t)) := by
    refine mapM_ok_map_eq hfields (fun ov hov' f hf => ?_)
    obtain ⟨name, hn, hf⟩ := Except.bind_ok hf
    obtain ⟨ty, hty, hf⟩ := Except.bind_ok hf
    injection hf with hf; subst hf
    have hprim := overrideFieldType_spec hty (hs ov hov').1
    unfold unwrapName at hn
    cases hname : ov.name with
    | none => rw [hname] at hn; cases hn
    | some n => rw [hname] at hn; injection hn with hn; subst hn; simp [hprim]
  have hrs : required.map (fun e => (some e.key, some e.field, e.conv)) =
      (m.overrides.filter fun ov => !ov.hasInit).map (fun ov => (nagaKey ov, ov.name, convOf m ov)) :=
    mapM_ok_map_eq hreq (fun ov _ e he => overrideEntry_spec he)
  have hos : optional.map (fun e => (some e.key, some e.field, e.conv)) =
      (m.overrides.filter fun ov => ov.hasInit).map (fun ov => (nagaKey ov, ov.name, convOf m ov)) :=
    mapM_ok_map_eq hopt (fun ov _ e he => overrideEntry_spec he)
  have hpass : (∀ v ∈ out.vertexEntries, v.constants = if m.overrides.isEmpty then .default else .overrides) ∧
      (∀ f ∈ out.fragmentEntries, f.constants = if m.overrides.isEmpty then .default else .overrides) := by
    constructor
    · intro v hv
      have hve := hp.vertexEntries
      unfold vertexEntries at hve
      obtain ⟨e, _, hfe⟩ := mapM_ok_mem hve v hv
      obtain ⟨inputs, _, hfe⟩ := Except.bind_ok hfe
      injection hfe with hfe; subst hfe
      rfl
    · intro f hf
      rw [hp.fragmentEntries] at hf
      unfold fragmentEntries at hf
      obtain ⟨e, _, rfl⟩ := List.mem_map.mp hf
      rfl
  by_cases hemp : fields.isEmpty = true
  · simp only [hemp, if_true] at hov
    injection hov with hov
    have hnil : m.overrides = [] := by
      have : fields = [] := List.isEmpty_iff.mp hemp
      rw [this] at hlen
      exact List.length_eq_zero_iff.mp hlen.symm
    refine ⟨by rw [← hov, hnil]; rfl, ?_, ?_, ?_, hpass⟩ <;>
      (intro ro hro; rw [← hov] at hro; cases hro)
  · simp only [hemp] at hov
    injection hov with hov
    have hne : m.overrides.isEmpty = false := by
      cases hmo : m.overrides with
      | nil => rw [hmo] at hlen; simp at hlen; rw [hlen] at hemp; simp at hemp
      | cons _ _ => rfl
    refine ⟨by rw [← hov, hne]; rfl, ?_, ?_, ?_, hpass⟩ <;>
      (intro ro hro; rw [← hov] at hro; injection hro with hro; subst hro)
    · exact hfs
    · exact hrs
    · exact hos

/-! ### Resolution: the map reaches naga under the right key

`V` is the type of converted values (an `f64` in the generated code); the theorem is
parametric in it, so it does not depend on a model of floating point. -/

/-- the map `constants()` builds: required entries always, optional ones when set; later
insertions overwrite earlier ones (`HashMap::insert`) -/
def constantsMap {V : Type} (ro : ROverrides) (req : String → V) (opt : String → Option V) : List (String × V) :=
  (ro.required.map fun e => (e.key, req e.field)) ++
  (ro.optional.filterMap fun e => (opt e.field).map fun v => (e.key, v))

/-- `HashMap::get` after the insertions: the last entry for the key wins -/
def mapGet {V : Type} (kvs : List (String × V)) (k : String) : Option V :=
  (kvs.reverse.find? fun kv => kv.1 == k).map (·.2)

theorem mapGet_unique {V : Type} (kvs : List (String × V)) (k : String) (v : V)
    (hmem : (k, v) ∈ kvs) (huniq : ∀ kv ∈ kvs, kv.1 = k → kv = (k, v)) : mapGet kvs k = some v := by
  unfold mapGet
  have hex : ∃ kv ∈ kvs.reverse, (kv.1 == k) = true := ⟨(k, v), by simpa using hmem, by simp⟩
  cases hf : kvs.reverse.find? fun kv => kv.1 == k with
  | none =>
    obtain ⟨kv, hkv, hk⟩ := hex
    have := List.find?_eq_none.mp hf kv hkv
    exact absurd hk this
  | some kv =>
    have h1 := List.find?_some hf
    have h2 := List.mem_of_find?_eq_some hf
    have := huniq kv (by simpa using h2) (by simpa using h1)
    simp [this]

theorem nodup_map_inj {α β : Type} {f : α → β} : ∀ {l : List α}, (l.map f).Nodup →
    ∀ {a b : α}, a ∈ l → b ∈ l → f a = f b → a = b := by
  intro l
  induction l with
  | nil => intro _ a b ha; cases ha
  | cons x xs ih =>
    intro hn a b ha hb hab
    rw [List.map_cons, List.nodup_cons] at hn
    rcases List.mem_cons.mp ha with rfl | ha' <;> rcases List.mem_cons.mp hb with rfl | hb'
    · rfl
    · exact absurd (List.mem_map.mpr ⟨b, hb', hab.symm⟩) hn.1
    · exact absurd (List.mem_map.mpr ⟨a, ha', hab⟩) hn.1
    · exact ih hn.2 ha' hb' hab

/-- **C12** (keys resolve): when naga's keys are pairwise distinct, the entry found under a
required override's key is the value converted from that override's own field. -/
theorem C12_required_resolves {V : Type} {m : Module} {out : Out} {ro : ROverrides}
    (hok : C12Ok m out) (hro : out.overrides = some ro)
    (hdist : (m.overrides.map nagaKey).Nodup)
    (req : String → V) (opt : String → Option V)
    (ov : Override) (hov : ov ∈ m.overrides) (hreq : ov.hasInit = false)
    (k n : String) (hk : nagaKey ov = some k) (hn : ov.name = some n) :
    mapGet (constantsMap ro req opt) k = some (req n) := by
  have hR := hok.required ro hro
  have hO := hok.optional ro hro
  -- the entry for `ov` is among the required ones
  have hmemR : (some k, some n, convOf m ov) ∈ ro.required.map (fun e => (some e.key, some e.field, e.conv)) := by
    rw [hR]
    exact List.mem_map.mpr ⟨ov, List.mem_filter.mpr ⟨hov, by simp [hreq]⟩, by rw [hk, hn]⟩
  obtain ⟨e, he, hee⟩ := List.mem_map.mp hmemR
  simp only [Prod.mk.injEq, Option.some.injEq] at hee
  apply mapGet_unique
  · unfold constantsMap
    apply List.mem_append_left
    exact List.mem_map.mpr ⟨e, he, by rw [hee.1, hee.2.1]⟩
  · intro kv hkv hkk
    unfold constantsMap at hkv
    -- any entry with key `k` belongs to an override whose naga key is `k`, i.e. to `ov`
    have keyOwner : ∀ ov' ∈ m.overrides, nagaKey ov' = some k → ov' = ov := by
      intro ov' hov' hk'
      exact nodup_map_inj hdist hov' hov (by rw [hk', hk])
    rcases List.mem_append.mp hkv with h1 | h1
    · obtain ⟨e', he', rfl⟩ := List.mem_map.mp h1
      have : (some e'.key, some e'.field, e'.conv) ∈ (m.overrides.filter fun ov => !ov.hasInit).map
          (fun ov => (nagaKey ov, ov.name, convOf m ov)) := by
        rw [← hR]; exact List.mem_map.mpr ⟨e', he', rfl⟩
      obtain ⟨ov', hov', hee'⟩ := List.mem_map.mp this
      simp only [Prod.mk.injEq] at hee'
      have hk' : nagaKey ov' = some k := by rw [hee'.1]; simp at hkk; rw [hkk]
      have := keyOwner ov' (List.mem_filter.mp hov').1 hk'
      subst this
      have hf : e'.field = n := by
        have := hee'.2.1; rw [hn] at this; injection this with this; exact this.symm
      simp at hkk
      rw [hkk, hf]
    · obtain ⟨e', he', hsome⟩ := List.mem_filterMap.mp h1
      have : (some e'.key, some e'.field, e'.conv) ∈ (m.overrides.filter fun ov => ov.hasInit).map
          (fun ov => (nagaKey ov, ov.name, convOf m ov)) := by
        rw [← hO]; exact List.mem_map.mpr ⟨e', he', rfl⟩
      obtain ⟨ov', hov', hee'⟩ := List.mem_map.mp this
      simp only [Prod.mk.injEq] at hee'
      cases hopt : opt e'.field with
      | none => rw [hopt] at hsome; cases hsome
      | some v =>
        rw [hopt] at hsome
        simp at hsome
        subst hsome
        have hk' : nagaKey ov' = some k := by rw [hee'.1]; simp at hkk; rw [hkk]
        have := keyOwner ov' (List.mem_filter.mp hov').1 hk'
        subst this
        have := (List.mem_filter.mp hov').2
        rw [hreq] at this; cases this

end WgslVerif

namespace WgslVerif

theorem mapGet_none {V : Type} (kvs : List (String × V)) (k : String)
    (h : ∀ kv ∈ kvs, kv.1 ≠ k) : mapGet kvs k = none := by
  unfold mapGet
  have : kvs.reverse.find? (fun kv => kv.1 == k) = none := by
    apply List.find?_eq_none.mpr
    intro kv hkv
    have := h kv (by simpa using hkv)
    simpa using this
  rw [this]; rfl

/-- **C12** (optional overrides): an override with a default is in the map exactly when its field
was set – then under naga's key with the value from its own field; when the field is `None` the
key is absent, so the shader's default applies. -/
theorem C12_optional_resolves {V : Type} {m : Module} {out : Out} {ro : ROverrides}
    (hok : C12Ok m out) (hro : out.overrides = some ro)
    (hdist : (m.overrides.map nagaKey).Nodup)
    (req : String → V) (opt : String → Option V)
    (ov : Override) (hov : ov ∈ m.overrides) (hinit : ov.hasInit = true)
    (k n : String) (hk : nagaKey ov = some k) (hn : ov.name = some n) :
    mapGet (constantsMap ro req opt) k = opt n := by
  have hR := hok.required ro hro
  have hO := hok.optional ro hro
  have keyOwner : ∀ ov' ∈ m.overrides, nagaKey ov' = some k → ov' = ov := by
    intro ov' hov' hk'
    exact nodup_map_inj hdist hov' hov (by rw [hk', hk])
  -- every entry with key `k` in the map comes from `ov`'s optional entry, with value `opt n`
  have hall : ∀ kv ∈ constantsMap ro req opt, kv.1 = k → ∃ v, opt n = some v ∧ kv = (k, v) := by
    intro kv hkv hkk
    unfold constantsMap at hkv
    rcases List.mem_append.mp hkv with h1 | h1
    · obtain ⟨e', he', rfl⟩ := List.mem_map.mp h1
      have : (some e'.key, some e'.field, e'.conv) ∈ (m.overrides.filter fun ov => !ov.hasInit).map
          (fun ov => (nagaKey ov, ov.name, convOf m ov)) := by
        rw [← hR]; exact List.mem_map.mpr ⟨e', he', rfl⟩
      obtain ⟨ov', hov', hee'⟩ := List.mem_map.mp this
      simp only [Prod.mk.injEq] at hee'
      have hk' : nagaKey ov' = some k := by rw [hee'.1]; simp at hkk; rw [hkk]
      have := keyOwner ov' (List.mem_filter.mp hov').1 hk'
      subst this
      have := (List.mem_filter.mp hov').2
      rw [hinit] at this; cases this
    · obtain ⟨e', he', hsome⟩ := List.mem_filterMap.mp h1
      have : (some e'.key, some e'.field, e'.conv) ∈ (m.overrides.filter fun ov => ov.hasInit).map
          (fun ov => (nagaKey ov, ov.name, convOf m ov)) := by
        rw [← hO]; exact List.mem_map.mpr ⟨e', he', rfl⟩
      obtain ⟨ov', hov', hee'⟩ := List.mem_map.mp this
      simp only [Prod.mk.injEq] at hee'
      cases hopt : opt e'.field with
      | none => rw [hopt] at hsome; cases hsome
      | some v =>
        rw [hopt] at hsome
        simp at hsome
        subst hsome
        have hk' : nagaKey ov' = some k := by rw [hee'.1]; simp at hkk; rw [hkk]
        have := keyOwner ov' (List.mem_filter.mp hov').1 hk'
        subst this
        have hf : e'.field = n := by
          have := hee'.2.1; rw [hn] at this; injection this with this; exact this.symm
        simp at hkk
        exact ⟨v, by rw [← hf, hopt], by rw [hkk]⟩
  cases hon : opt n with
  | none =>
    apply mapGet_none
    intro kv hkv hkk
    obtain ⟨v, hv, _⟩ := hall kv hkv hkk
    rw [hon] at hv; cases hv
  | some v =>
    apply mapGet_unique
    · -- the entry is present
      have hmemO : (some k, some n, convOf m ov) ∈ ro.optional.map (fun e => (some e.key, some e.field, e.conv)) := by
        rw [hO]
        exact List.mem_map.mpr ⟨ov, List.mem_filter.mpr ⟨hov, hinit⟩, by rw [hk, hn]⟩
      obtain ⟨e, he, hee⟩ := List.mem_map.mp hmemO
      simp only [Prod.mk.injEq, Option.some.injEq] at hee
      unfold constantsMap
      apply List.mem_append_right
      apply List.mem_filterMap.mpr
      exact ⟨e, he, by rw [hee.2.1, hon, hee.1]; rfl⟩
    · intro kv hkv hkk
      obtain ⟨v', hv', e⟩ := hall kv hkv hkk
      rw [hon] at hv'; injection hv' with hv'
      rw [e, hv']

end WgslVerif
