import WgslVerif.Props.C10
import WgslVerif.Props.C01Derive
/-
C10 – nested structs: the layout encase's derive computes for an emitted struct is the WGSL one,
at every nesting depth (struct members, arrays of structs, structs of arrays of structs ...).

`Encase.Meta rs r p` is encase's metadata as a RELATION (no fuel): the Rust type `r`, with the
struct items `rs` in scope, has (alignment, size) `p`.  `Encase.structMeta` (the executable,
fuel-bounded form the correspondence check evaluates on the real output) is sound for it
(`structMeta_sound`) and the relation is functional (`Meta.det`), so whenever the executable
form answers, it answers what the theorem says.

`C10_struct`: for a module whose host-shareable struct types are `natural` (members
glam-representable leaves, fixed arrays and nested structs of those, no builtin members, the
recorded offsets and span being the attribute-free WGSL layout), every emitted struct
reachable from a variable has, field by field, encase metadata equal to the WGSL
(AlignOf, SizeOf) of the member, the offsets encase computes are the recorded WGSL offsets,
and the size is the recorded span.
The classes outside `natural` are the recorded findings (explicit `@size/@align`, f64,
builtin members) and trailing runtime-sized arrays (measured by the batch harness only).
-/
namespace WgslVerif
open WgslLayout (roundUp)

namespace Encase

def isLeaf : RustTy → Bool
  | .prim _ => true
  | .glam _ => true
  | _ => false

/-- encase's (alignment, size) of a field type, relationally -/
inductive Meta (rs : List RStruct) : RustTy → Nat × Nat → Prop
  | leaf {r : RustTy} {p : Nat × Nat} : isLeaf r = true → alignSizeOf (fun _ => none) r = some p → Meta rs r p
  | array {t : RustTy} {n a sz : Nat} : Meta rs t (a, sz) → Meta rs (.array t n) (a, n * roundUp a sz)
  | vec {t : RustTy} {a sz : Nat} : Meta rs t (a, sz) → Meta rs (.vec t) (a, roundUp a sz)
  | named {name : String} {s : RStruct} {metas : List (Nat × Nat)} :
      RustStatic.findStruct rs name = some s →
      metas.length = s.fields.length →
      (∀ i (h1 : i < s.fields.length) (h2 : i < metas.length), Meta rs s.fields[i].ty metas[i]) →
      Meta rs (.named name) ((structLayout metas).2.2, (structLayout metas).2.1)

end Encase

namespace C10S
open Encase (Meta isLeaf)

/-- leaves: the Rust type emitted for a glam-representable scalar / vector / matrix is a leaf for encase with the
WGSL (AlignOf, SizeOf) -/
theorem leaf_meta (m : Module) (fuel fr : Nat) (ty : Ty) (r : RustTy)
    (hg : glamRepresentable m (fuel + 1) ty = true) (hna : ∀ b s st, ty.inner ≠ .array b s st)
    (hr : rustType m .glam (fr + 1) ty = .ok r) :
    isLeaf r = true ∧ Encase.alignSizeOf (fun _ => none) r = WgslLayout.alignSize m (fuel + 1) ty := by
  unfold glamRepresentable at hg
  unfold rustType at hr
  unfold WgslLayout.alignSize
  cases hi : ty.inner <;> rw [hi] at hg hr <;> simp only at hg hr ⊢ <;> try (cases hg; done)
  case scalar s =>
    obtain ⟨k, w⟩ := s
    simp only [Bool.and_eq_true, beq_iff_eq, Bool.or_eq_true] at hg
    obtain ⟨hw, hk⟩ := hg
    subst hw
    rcases hk with (hk | hk) | hk <;> subst hk <;> simp [rustScalarType] at hr <;> subst hr <;>
      exact ⟨rfl, by first | rfl | decide | (simp [Encase.alignSizeOf, WgslLayout.vecAlign, WgslLayout.vecSize, WgslLayout.roundUp, VecSize.toNat])⟩
  case vector n s =>
    obtain ⟨k, w⟩ := s
    simp only [Bool.and_eq_true, beq_iff_eq, Bool.or_eq_true] at hg
    obtain ⟨hw, hk⟩ := hg
    subst hw
    rcases hk with (hk | hk) | hk <;> subst hk <;> cases n <;> simp [glamVectorType] at hr <;> subst hr <;>
      exact ⟨rfl, by first | rfl | decide | (simp [Encase.alignSizeOf, WgslLayout.vecAlign, WgslLayout.vecSize, WgslLayout.roundUp, VecSize.toNat])⟩
  case matrix c rr s =>
    obtain ⟨k, w⟩ := s
    simp only [Bool.and_eq_true, beq_iff_eq] at hg
    obtain ⟨hw, hc⟩ := hg
    subst hw; subst hc
    cases c <;> simp [glamMatrixType] at hr <;> subst hr <;>
      exact ⟨rfl, by first | rfl | decide | (simp [Encase.alignSizeOf, WgslLayout.vecAlign, WgslLayout.vecSize, WgslLayout.roundUp, VecSize.toNat])⟩
  case array base sz stride => exact absurd hi (hna base sz stride)

/-- (AlignOf, SizeOf) of the members by the WGSL rules -/
def memberMetas (m : Module) (fuel : Nat) (ms : List Member) : List (Nat × Nat) :=
  ms.map fun mem => ((m.types[mem.ty]?).bind (WgslLayout.alignSize m fuel)).getD (1, 0)

/-- the domain of `C10_struct`: glam-representable leaves, fixed arrays and structs of those, no builtin members, and
the recorded offsets / span are the attribute-free WGSL layout (no `@align` / `@size` moved a member) -/
def natural (m : Module) : Nat → Ty → Bool
  | 0, _ => false
  | fuel + 1, ty =>
    match ty.inner with
    | .array base (.const _) _ =>
      (match m.types[base]? with | some bt => natural m fuel bt | none => false)
    -- a runtime-sized array: legal only as the last member of a top-level struct (WGSL), which is also the only place
    -- the generator accepts it (`rts-not-last`, `rts-in-type` panics)
    | .array base .dynamic _ =>
      (match m.types[base]? with | some bt => natural m fuel bt | none => false)
    | .struct ms span =>
      (ms.all fun mem => !isBuiltinMember mem &&
        (match m.types[mem.ty]? with | some mt => natural m fuel mt | none => false)) &&
      ((Encase.structLayout (memberMetas m fuel ms)).1 == ms.map (·.offset) &&
       (Encase.structLayout (memberMetas m fuel ms)).2.1 == span)
    | _ => glamRepresentable m (fuel + 1) ty

/-- fields arise from members position by position -/
def FieldsFrom (m : Module) (o : Options) : List Member → List RField → Prop
  | [], [] => True
  | mem :: ms, f :: fs => FieldFrom m o mem f ∧ FieldsFrom m o ms fs
  | _, _ => False

theorem structMembersFrom_pos {m : Module} {o : Options} {len : Nat} :
    ∀ (l : List Member) (idx : Nat) (fs : List RField),
      structMembersFrom m o len idx l = .ok fs → FieldsFrom m o l fs := by
  intro l
  induction l with
  | nil =>
    intro idx fs h
    rw [structMembersFrom] at h
    cases h
    trivial
  | cons mem rest ih =>
    intro idx fs h
    obtain ⟨f, fs', rfl, hrest, hf, _⟩ := member_fieldFrom h
    exact ⟨hf, ih (idx + 1) fs' hrest⟩

/-- the alignment component of encase's struct layout is the maximum of the field alignments -/
theorem structLayout_fold_align (fields : List (Nat × Nat)) :
    ∀ (acc : List Nat × Nat × Nat),
      (fields.foldl (fun (acc : List Nat × Nat × Nat) (f : Nat × Nat) =>
        (acc.1 ++ [roundUp f.1 acc.2.1], roundUp f.1 acc.2.1 + f.2, max acc.2.2 f.1)) acc).2.2 =
      fields.foldl (fun a f => max a f.1) acc.2.2 := by
  induction fields with
  | nil => intro acc; rfl
  | cons f fs ih => intro acc; simp only [List.foldl_cons]; rw [ih]

theorem structLayout_align (fields : List (Nat × Nat)) :
    (Encase.structLayout fields).2.2 = fields.foldl (fun a f => max a f.1) 1 := by
  unfold Encase.structLayout
  exact structLayout_fold_align fields ([], 0, 1)

/-- what `alignSize` folds over for a struct whose members all have a layout -/
theorem aligns_of_members (m : Module) (fuel : Nat) :
    ∀ (ms : List Member), (∀ mem ∈ ms, ∃ p, (m.types[mem.ty]?).bind (WgslLayout.alignSize m fuel) = some p) →
    ((ms.map fun mem =>
        match m.types[mem.ty]? with
        | some mt => (WgslLayout.alignSize m fuel mt).map (fun (p : Nat × Nat) => p.1)
        | none => none).all (·.isSome) = true) ∧
    ∀ a, (ms.map fun mem =>
        match m.types[mem.ty]? with
        | some mt => (WgslLayout.alignSize m fuel mt).map (fun (p : Nat × Nat) => p.1)
        | none => none).foldl (fun a x => max a (x.getD 1)) a =
      (memberMetas m fuel ms).foldl (fun a f => max a f.1) a := by
  intro ms
  induction ms with
  | nil => intro _; exact ⟨rfl, fun _ => rfl⟩
  | cons mem rest ih =>
    intro h
    obtain ⟨p, hp⟩ := h mem List.mem_cons_self
    obtain ⟨h1, h2⟩ := ih (fun x hx => h x (List.mem_cons_of_mem _ hx))
    cases hmt : m.types[mem.ty]? with
    | none => rw [hmt] at hp; cases hp
    | some mt =>
      rw [hmt] at hp
      simp only [Option.bind_some] at hp
      refine ⟨?_, fun a => ?_⟩
      · simp only [List.map_cons, List.all_cons, hmt, hp, Option.map_some, Option.isSome_some, Bool.true_and]
        exact h1
      · simp only [memberMetas, List.map_cons, List.foldl_cons, hmt, hp, Option.map_some, Option.getD_some,
          Option.bind_some]
        exact h2 _

/-- the struct step of the main induction: field by field, encase's metadata of the emitted field type is the WGSL
(AlignOf, SizeOf) of the member -/
theorem fields_meta {rs : List RStruct} {m : Module} {o : Options} {fuel : Nat} (hrepr : o.repr = .glam)
    (P : Nat → Prop)
    (IH : ∀ h ty r, m.types[h]? = some ty → P h → natural m fuel ty = true →
        rustType m .glam (typeFuel m) ty = .ok r → ∃ p, WgslLayout.alignSize m fuel ty = some p ∧ Meta rs r p)
    (IHd : ∀ h base bt e, P h → base ∈ typeSucc m h → m.types[base]? = some bt → natural m (fuel - 1) bt = true →
        rustType m .glam (typeFuel m) bt = .ok e → ∃ p, WgslLayout.alignSize m (fuel - 1) bt = some p ∧ Meta rs e p) :
    ∀ (ms : List Member) (fs : List RField), FieldsFrom m o ms fs →
      (∀ mem ∈ ms, P mem.ty ∧ ∃ mt, m.types[mem.ty]? = some mt ∧ natural m fuel mt = true) →
      fs.length = ms.length ∧
      (∀ mem ∈ ms, ∃ p, (m.types[mem.ty]?).bind (WgslLayout.alignSize m fuel) = some p) ∧
      (∀ i (h1 : i < fs.length) (h2 : i < (memberMetas m fuel ms).length),
        Meta rs fs[i].ty (memberMetas m fuel ms)[i]) := by
  intro ms
  induction ms with
  | nil =>
    intro fs hf _
    cases fs with
    | nil => exact ⟨rfl, fun _ h => (by cases h), fun i h1 _ => absurd h1 (by simp)⟩
    | cons f fs => exact hf.elim
  | cons mem rest ih =>
    intro fs hf hms
    cases fs with
    | nil => exact hf.elim
    | cons f fs' =>
      obtain ⟨hfm, hrest⟩ := hf
      obtain ⟨hl, hp, hmeta⟩ := ih fs' hrest (fun x hx => hms x (List.mem_cons_of_mem _ hx))
      obtain ⟨hP, mt, hmt, hnat⟩ := hms mem List.mem_cons_self
      obtain ⟨ty, hty, _, hcase⟩ := hfm
      rw [hmt] at hty
      cases hty
      have hcons : ∀ p, (m.types[mem.ty]?).bind (WgslLayout.alignSize m fuel) = some p → Meta rs f.ty p →
          fs'.length + 1 = rest.length + 1 ∧
          (∀ x ∈ mem :: rest, ∃ p, (m.types[x.ty]?).bind (WgslLayout.alignSize m fuel) = some p) ∧
          (∀ i (h1 : i < (f :: fs').length) (h2 : i < (memberMetas m fuel (mem :: rest)).length),
            Meta rs (f :: fs')[i].ty (memberMetas m fuel (mem :: rest))[i]) := by
        intro p hb hpm
        refine ⟨by simp [hl], ?_, ?_⟩
        · intro x hx
          rcases List.mem_cons.mp hx with rfl | hx
          · exact ⟨p, hb⟩
          · exact hp x hx
        · intro i h1 h2
          cases i with
          | zero =>
            simp only [memberMetas, List.map_cons, List.getElem_cons_zero, hb, Option.getD_some]
            exact hpm
          | succ j =>
            simp only [memberMetas, List.map_cons, List.getElem_cons_succ]
            exact hmeta j (by simpa using h1) (by simpa [memberMetas] using h2)
      rcases hcase with ⟨base, stride, bt, e, hi, hbt, hre, hfty, _⟩ | ⟨_, hrt, _⟩
      · -- the runtime-sized last member: `Vec<element>`, metadata with one element
        rw [hrepr] at hre
        cases fuel with
        | zero => simp [natural] at hnat
        | succ k =>
          have hnb : natural m k bt = true := by
            unfold natural at hnat
            simp only [hi, hbt] at hnat
            exact hnat
          have hsucc : base ∈ typeSucc m mem.ty := by simp [typeSucc, hmt, hi]
          obtain ⟨⟨a, sz⟩, hpa, hpm⟩ := IHd mem.ty base bt e hP hsucc hbt hnb hre
          have hb : (m.types[mem.ty]?).bind (WgslLayout.alignSize m (k + 1)) = some (a, roundUp a sz) := by
            rw [hmt]
            simp only [Option.bind_some]
            have hpa' : WgslLayout.alignSize m k bt = some (a, sz) := hpa
            unfold WgslLayout.alignSize
            simp only [hi, hbt, hpa']
          have hm : Meta rs f.ty (a, roundUp a sz) := by rw [hfty]; exact Meta.vec hpm
          exact hcons _ hb hm
      · rw [hrepr] at hrt
        obtain ⟨p, hpa, hpm⟩ := IH mem.ty mt f.ty hmt hP hnat hrt
        have hb : (m.types[mem.ty]?).bind (WgslLayout.alignSize m fuel) = some p := by
          rw [hmt]; exact hpa
        exact hcons p hb hpm

theorem tyReach_snoc {m : Module} {a b c : Nat} (h : TyReach m a b) (hs : c ∈ typeSucc m b) : TyReach m a c :=
  TyReach.trans h (TyReach.step hs (TyReach.refl c))

/-- **Main induction.**  `hem`: every struct type reachable from `root` is emitted under its name, with the fields
`struct_members` makes of its (non-builtin) members. -/
theorem meta_of_natural {m : Module} {o : Options} {rs : List RStruct} {root : Nat} (hrepr : o.repr = .glam)
    (hem : ∀ h ty ms sp n, m.types[h]? = some ty → ty.inner = .struct ms sp → ty.name = some n → TyReach m root h →
      ∃ s, RustStatic.findStruct rs n = some s ∧ structMembers m o (nonBuiltin ms) = .ok s.fields) :
    ∀ fuel h ty fr r, m.types[h]? = some ty → TyReach m root h → natural m fuel ty = true →
      rustType m .glam fr ty = .ok r → ∃ p, WgslLayout.alignSize m fuel ty = some p ∧ Meta rs r p := by
  intro fuel
  induction fuel using Nat.strongRecOn with
  | _ fuel ih =>
  cases fuel with
  | zero => intro h ty fr r _ _ hn; simp [natural] at hn
  | succ fuel =>
    intro h ty fr r hty hreach hn hr
    cases fr with
    | zero => simp [rustType] at hr
    | succ fr =>
      cases hi : ty.inner
      case array base sz stride =>
        have hsucc : base ∈ typeSucc m h := by simp [typeSucc, hty, hi]
        cases sz with
        | const n =>
          unfold natural at hn
          simp only [hi] at hn
          cases hb : m.types[base]? with
          | none => rw [hb] at hn; cases hn
          | some bt =>
            rw [hb] at hn
            unfold rustType at hr
            simp only [hi, hb] at hr
            obtain ⟨e, he, hr⟩ := Except.bind_ok hr
            cases hr
            obtain ⟨⟨a, sz⟩, hpa, hpm⟩ := ih fuel (by omega) base bt fr e hb (tyReach_snoc hreach hsucc) hn he
            refine ⟨(a, n * roundUp a sz), ?_, Meta.array hpm⟩
            unfold WgslLayout.alignSize
            simp only [hi, hb, hpa]
        | dynamic => unfold rustType at hr; simp [hi] at hr
        | pending => simp [natural, hi, glamRepresentable] at hn
      case struct ms span =>
        unfold natural at hn
        simp only [hi, Bool.and_eq_true, beq_iff_eq, List.all_eq_true] at hn
        obtain ⟨hall, hoff, hspan⟩ := hn
        unfold rustType at hr
        simp only [hi] at hr
        cases hnm : ty.name with
        | none => rw [hnm] at hr; cases hr
        | some nm =>
          rw [hnm] at hr
          cases hr
          obtain ⟨s, hfind, hfields⟩ := hem h ty ms span nm hty hi hnm hreach
          have hnb : nonBuiltin ms = ms := by
            unfold nonBuiltin
            exact List.filter_eq_self.mpr fun mem hmem => (hall mem hmem).1
          rw [hnb] at hfields
          unfold structMembers at hfields
          have hff := structMembersFrom_pos ms 0 s.fields hfields
          have hms : ∀ mem ∈ ms, TyReach m root mem.ty ∧ ∃ mt, m.types[mem.ty]? = some mt ∧ natural m fuel mt = true := by
            intro mem hmem
            have hsucc : mem.ty ∈ typeSucc m h := by
              simp only [typeSucc, hty, hi]
              exact List.mem_map_of_mem hmem
            refine ⟨tyReach_snoc hreach hsucc, ?_⟩
            have := (hall mem hmem).2
            cases hmt : m.types[mem.ty]? with
            | none => rw [hmt] at this; cases this
            | some mt => rw [hmt] at this; exact ⟨mt, rfl, this⟩
          obtain ⟨hlen, hp, hmeta⟩ := fields_meta (rs := rs) hrepr (TyReach m root)
            (fun h' ty' r' a b c d => ih fuel (by omega) h' ty' (typeFuel m) r' a b c d)
            (fun h' base bt e hr' hs' hb' hn' he' =>
              ih (fuel - 1) (by omega) base bt (typeFuel m) e hb' (tyReach_snoc hr' hs') hn' he') ms s.fields hff hms
          obtain ⟨hsome, hfold⟩ := aligns_of_members m fuel ms hp
          have hml : (memberMetas m fuel ms).length = s.fields.length := by simp [memberMetas, hlen]
          have hnamed := Meta.named (rs := rs) hfind hml hmeta
          rw [structLayout_align, hspan] at hnamed
          refine ⟨_, ?_, hnamed⟩
          unfold WgslLayout.alignSize
          simp only [hi]
          have key : ∀ (A : Bool) (F G : Nat), A = true → F = G →
              (if A = true then some (F, span) else none) = some (G, span) := by
            intro A F G hA hF; rw [if_pos hA, hF]
          exact key _ _ _ hsome (hfold 1)
      all_goals
        have hg : glamRepresentable m (fuel + 1) ty = true := by simpa [natural, hi] using hn
        have hna : ∀ b s st, ty.inner ≠ .array b s st := by intro b s st hc; rw [hi] at hc; cases hc
        obtain ⟨hl, hal⟩ := leaf_meta m fuel fr ty r hg hna hr
        cases hp : WgslLayout.alignSize m (fuel + 1) ty with
        | none =>
          exfalso
          unfold glamRepresentable at hg
          simp [hi] at hg
          try (unfold WgslLayout.alignSize at hp; simp [hi] at hp)
        | some p => rw [hp] at hal; exact ⟨p, rfl, Meta.leaf hl hal⟩

/-- every struct type reachable from a variable's type is emitted under its name, with the fields `struct_members`
makes of its non-builtin members -/
theorem emitted_of_gen {m : Module} {o : Options} {src : String} {path : Option String} {out : Out}
    (ha : TypeArenaOk m) (hg : gen m o src path = .ok out) {g : Global} (hgm : g ∈ m.globals) :
    ∀ h ty ms sp n, m.types[h]? = some ty → ty.inner = .struct ms sp → ty.name = some n → TyReach m g.ty h →
      ∃ s, RustStatic.findStruct out.structs n = some s ∧ structMembers m o (nonBuiltin ms) = .ok s.fields := by
  intro h ty ms sp n hty hi hn hreach
  have hp := gen_ok hg
  have hgv : h ∈ globalVariableTypes m :=
    (globalVariableTypes_mem m ha.earlier ha.globalsInRange h).mpr ⟨g, hgm, hreach⟩
  have hc : (globalVariableTypes m).contains h = true := List.contains_iff_mem.mpr hgv
  have hw : structWanted m (globalVariableTypes m) h = true := by
    unfold structWanted; rw [hc]; simp
  have hs := hp.structs
  rw [structs_def] at hs
  have hin : (h, ty) ∈ (indexed m.types).filter fun ht => structWanted m (globalVariableTypes m) ht.1 :=
    List.mem_filter.mpr ⟨mem_indexed.mpr hty, hw⟩
  obtain ⟨ob, hob, hobm⟩ := filterMapM_ok_all hs (h, ty) hin
  unfold structOf at hob
  simp only [hi] at hob
  obtain ⟨s', hs', hob⟩ := Except.bind_ok hob
  cases hob
  have hs'mem : s' ∈ out.structs := hobm s' rfl
  obtain ⟨name, fields, offs, hname, hfields, _, _, _, _, e⟩ := rustStruct_ok hs'
  have hname' : s'.name = n := by
    rw [e]; dsimp only; rw [hn] at hname; injection hname with hname; exact hname.symm
  have hfind := findStruct_of_mem out.structs (C08_nodup ha hg) s' hs'mem
  rw [hname'] at hfind
  refine ⟨s', hfind, ?_⟩
  rw [e]
  exact hfields

/-- **C10** (nested structs).  With the glam representation, for a variable `g` and a struct type `h` reachable from its
type that is in the `natural` domain: the struct is emitted, and for the emitted item `s`
* field by field, encase's (alignment, size) of the field's Rust type is the WGSL (AlignOf, SizeOf) of the member
  (`memberMetas`), at every nesting depth (nested struct items are looked up in the emitted output);
* the offsets encase's derive assigns are the recorded WGSL member offsets and the size it assigns is the recorded span;
* encase's (alignment, size) of the struct itself is the WGSL one. -/
theorem C10_struct {m : Module} {o : Options} {src : String} {path : Option String} {out : Out}
    (ha : TypeArenaOk m) (hg : gen m o src path = .ok out) (hrepr : o.repr = .glam)
    {g : Global} (hgm : g ∈ m.globals) {h : Nat} {ty : Ty} {ms : List Member} {span : Nat} {n : String}
    (hreach : TyReach m g.ty h) (hty : m.types[h]? = some ty) (hi : ty.inner = .struct ms span) (hn : ty.name = some n)
    {fuel : Nat} (hnat : natural m (fuel + 1) ty = true) :
    ∃ s, RustStatic.findStruct out.structs n = some s ∧ s.fields.length = ms.length ∧
      (∀ i (h1 : i < s.fields.length) (h2 : i < (memberMetas m fuel ms).length),
        Meta out.structs s.fields[i].ty (memberMetas m fuel ms)[i]) ∧
      (Encase.structLayout (memberMetas m fuel ms)).1 = ms.map (·.offset) ∧
      (Encase.structLayout (memberMetas m fuel ms)).2.1 = span ∧
      ∃ p, WgslLayout.alignSize m (fuel + 1) ty = some p ∧ Meta out.structs (.named n) p := by
  have hem := emitted_of_gen ha hg hgm
  obtain ⟨p, hpa, hpm⟩ := meta_of_natural hrepr hem (fuel + 1) h ty 1 (.named n) hty hreach hnat
    (by unfold rustType; simp only [hi, hn])
  -- the struct step once more, to expose the fields
  have hn' := hnat
  unfold natural at hn'
  simp only [hi, Bool.and_eq_true, beq_iff_eq, List.all_eq_true] at hn'
  obtain ⟨hall, hoff, hspan⟩ := hn'
  obtain ⟨s, hfind, hfields⟩ := hem h ty ms span n hty hi hn hreach
  have hnb : nonBuiltin ms = ms := by
    unfold nonBuiltin
    exact List.filter_eq_self.mpr fun mem hmem => (hall mem hmem).1
  rw [hnb] at hfields
  unfold structMembers at hfields
  have hff := structMembersFrom_pos ms 0 s.fields hfields
  have hms : ∀ mem ∈ ms, TyReach m g.ty mem.ty ∧ ∃ mt, m.types[mem.ty]? = some mt ∧ natural m fuel mt = true := by
    intro mem hmem
    have hsucc : mem.ty ∈ typeSucc m h := by
      simp only [typeSucc, hty, hi]
      exact List.mem_map_of_mem hmem
    refine ⟨tyReach_snoc hreach hsucc, ?_⟩
    have := (hall mem hmem).2
    cases hmt : m.types[mem.ty]? with
    | none => rw [hmt] at this; cases this
    | some mt => rw [hmt] at this; exact ⟨mt, rfl, this⟩
  obtain ⟨hlen, _, hmeta⟩ := fields_meta (rs := out.structs) hrepr (TyReach m g.ty)
    (fun h' ty' r' a b c d => meta_of_natural hrepr hem fuel h' ty' (typeFuel m) r' a b c d)
    (fun h' base bt e hr' hs' hb' hn' he' =>
      meta_of_natural hrepr hem (fuel - 1) base bt (typeFuel m) e hb' (tyReach_snoc hr' hs') hn' he') ms s.fields hff hms
  exact ⟨s, hfind, hlen, hmeta, hoff, hspan, p, hpa, hpm⟩

/-! ### The executable form (`Encase.structMeta`, evaluated by the correspondence check on real output) agrees -/

theorem alignSizeOf_leaf (sm : String → Option (Nat × Nat)) (r : RustTy) (hl : isLeaf r = true) :
    Encase.alignSizeOf sm r = Encase.alignSizeOf (fun _ => none) r := by
  cases r <;> simp [isLeaf] at hl
  case prim s => unfold Encase.alignSizeOf; split <;> first | rfl | simp_all
  case glam s => unfold Encase.alignSizeOf; split <;> first | rfl | simp_all

theorem alignSizeOf_sound (rs : List RStruct) (sm : String → Option (Nat × Nat))
    (hsm : ∀ n p, sm n = some p → Meta rs (.named n) p) :
    ∀ r p, Encase.alignSizeOf sm r = some p → Meta rs r p := by
  intro r
  induction r with
  | prim s => intro p h; exact Meta.leaf rfl (by rw [← alignSizeOf_leaf sm _ rfl]; exact h)
  | glam s => intro p h; exact Meta.leaf rfl (by rw [← alignSizeOf_leaf sm _ rfl]; exact h)
  | array t n ih =>
    intro p h
    unfold Encase.alignSizeOf at h
    cases hq : Encase.alignSizeOf sm t with
    | none => rw [hq] at h; cases h
    | some q =>
      rw [hq] at h
      simp only [Option.map_some, Option.some.injEq] at h
      subst h
      exact Meta.array (ih (q.1, q.2) hq)
  | named n => intro p h; exact hsm n p (by simpa [Encase.alignSizeOf] using h)
  | nalgebraV t n _ => intro p h; simp [Encase.alignSizeOf] at h
  | nalgebraM t r c _ => intro p h; simp [Encase.alignSizeOf] at h
  | vec t ih =>
    intro p h
    unfold Encase.alignSizeOf at h
    cases hq : Encase.alignSizeOf sm t with
    | none => rw [hq] at h; cases h
    | some q =>
      rw [hq] at h
      simp only [Option.map_some, Option.some.injEq] at h
      subst h
      exact Meta.vec (ih (q.1, q.2) hq)
  | option t _ => intro p h; simp [Encase.alignSizeOf] at h
  | unknown s => intro p h; simp [Encase.alignSizeOf] at h

/-- whatever the fuel-bounded evaluator answers is derivable in the relation -/
theorem structMeta_sound (rs : List RStruct) :
    ∀ F n p, Encase.structMeta rs F n = some p → Meta rs (.named n) p := by
  intro F
  induction F with
  | zero => intro n p h; simp [Encase.structMeta] at h
  | succ F ih =>
    intro n p h
    unfold Encase.structMeta at h
    split at h
    · cases h
    · rename_i s hfind
      simp only at h
      split at h
      · rename_i hall
        injection h with h
        subst h
        refine Meta.named (rs := rs) (s := s) hfind (by simp) ?_
        intro i h1 h2
        have hmem : Encase.alignSizeOf (Encase.structMeta rs F) s.fields[i].ty ∈
            s.fields.map fun f => Encase.alignSizeOf (Encase.structMeta rs F) f.ty :=
          List.mem_map_of_mem (List.getElem_mem h1)
        have hsome := List.all_eq_true.mp hall _ hmem
        cases hq : Encase.alignSizeOf (Encase.structMeta rs F) s.fields[i].ty with
        | none => rw [hq] at hsome; cases hsome
        | some q =>
          simp only [List.getElem_map, hq, Option.getD_some]
          exact alignSizeOf_sound rs _ ih _ _ hq
      · cases h

/-- the relation is functional -/
theorem Meta.det {rs : List RStruct} {r : RustTy} {p q : Nat × Nat} (h1 : Meta rs r p) (h2 : Meta rs r q) : p = q := by
  induction h1 generalizing q with
  | leaf hl ha =>
    cases h2 with
    | leaf _ ha' => rw [ha] at ha'; exact Option.some.inj ha'
    | array _ => simp [isLeaf] at hl
    | vec _ => simp [isLeaf] at hl
    | named _ _ _ => simp [isLeaf] at hl
  | array _ ih =>
    cases h2 with
    | leaf hl _ => simp [isLeaf] at hl
    | array h' =>
      have := ih h'
      injection this with ha hs
      subst ha; subst hs; rfl
  | vec _ ih =>
    cases h2 with
    | leaf hl _ => simp [isLeaf] at hl
    | vec h' =>
      have := ih h'
      injection this with ha hs
      subst ha; subst hs; rfl
  | named hf hl _ ih =>
    cases h2 with
    | leaf hl' _ => simp [isLeaf] at hl'
    | named hf' hl' hm' =>
      rw [hf] at hf'
      cases hf'
      rename_i metas _ metas'
      have : metas = metas' := by
        apply List.ext_getElem (by rw [hl, hl'])
        intro i h1 h2
        exact ih i (by rw [← hl]; exact h1) h1 (hm' i (by rw [← hl]; exact h1) h2)
      subst this
      rfl

/-- **C10** (nested structs, executable form): under the hypotheses of `C10_struct`, whenever the evaluator the
correspondence check runs on the REAL emitted structs answers for the struct, it answers the WGSL (AlignOf, SizeOf). -/
theorem C10_struct_exec {m : Module} {o : Options} {src : String} {path : Option String} {out : Out}
    (ha : TypeArenaOk m) (hg : gen m o src path = .ok out) (hrepr : o.repr = .glam)
    {g : Global} (hgm : g ∈ m.globals) {h : Nat} {ty : Ty} {ms : List Member} {span : Nat} {n : String}
    (hreach : TyReach m g.ty h) (hty : m.types[h]? = some ty) (hi : ty.inner = .struct ms span) (hn : ty.name = some n)
    {fuel : Nat} (hnat : natural m (fuel + 1) ty = true)
    {F : Nat} {p : Nat × Nat} (hex : Encase.structMeta out.structs F n = some p) :
    WgslLayout.alignSize m (fuel + 1) ty = some p := by
  obtain ⟨_, _, _, _, _, _, p', hp', hm'⟩ := C10_struct ha hg hrepr hgm hreach hty hi hn hnat
  rw [hp', Meta.det hm' (structMeta_sound _ F n p hex)]

/-- ... and the offsets / size it computes from the fields of the real item are the recorded WGSL ones -/
theorem C10_struct_exec_offsets {m : Module} {o : Options} {src : String} {path : Option String} {out : Out}
    (ha : TypeArenaOk m) (hg : gen m o src path = .ok out) (hrepr : o.repr = .glam)
    {g : Global} (hgm : g ∈ m.globals) {h : Nat} {ty : Ty} {ms : List Member} {span : Nat} {n : String}
    (hreach : TyReach m g.ty h) (hty : m.types[h]? = some ty) (hi : ty.inner = .struct ms span) (hn : ty.name = some n)
    {fuel : Nat} (hnat : natural m (fuel + 1) ty = true) {F : Nat} :
    ∃ s, RustStatic.findStruct out.structs n = some s ∧
      ((s.fields.map fun f => Encase.alignSizeOf (Encase.structMeta out.structs F) f.ty).all (·.isSome) = true →
        let l := Encase.structLayout
          ((s.fields.map fun f => Encase.alignSizeOf (Encase.structMeta out.structs F) f.ty).map fun x => x.getD (1, 0))
        l.1 = ms.map (·.offset) ∧ l.2.1 = span) := by
  obtain ⟨s, hfind, hlen, hmeta, hoff, hspan, _⟩ := C10_struct ha hg hrepr hgm hreach hty hi hn hnat
  refine ⟨s, hfind, fun hall => ?_⟩
  have hml : (memberMetas m fuel ms).length = s.fields.length := by simp [memberMetas, hlen]
  have heq : ((s.fields.map fun f => Encase.alignSizeOf (Encase.structMeta out.structs F) f.ty).map fun x => x.getD (1, 0))
      = memberMetas m fuel ms := by
    apply List.ext_getElem (by simp [hml])
    intro i h1 h2
    have h1' : i < s.fields.length := by simpa using h1
    have hmem : Encase.alignSizeOf (Encase.structMeta out.structs F) s.fields[i].ty ∈
        s.fields.map fun f => Encase.alignSizeOf (Encase.structMeta out.structs F) f.ty :=
      List.mem_map_of_mem (List.getElem_mem h1')
    have hsome := List.all_eq_true.mp hall _ hmem
    cases hq : Encase.alignSizeOf (Encase.structMeta out.structs F) s.fields[i].ty with
    | none => rw [hq] at hsome; cases hsome
    | some q =>
      simp only [List.getElem_map, hq, Option.getD_some]
      exact Meta.det (alignSizeOf_sound _ _ (structMeta_sound _ F) _ _ hq) (hmeta i h1' h2)
  simp only [heq]
  exact ⟨hoff, hspan⟩

/-! ### Trailing runtime-sized arrays -/

theorem fieldsFrom_last {m : Module} {o : Options} :
    ∀ (ms : List Member) (fs : List RField) (lm : Member), FieldsFrom m o ms fs → ms.getLast? = some lm →
      ∃ f, fs.getLast? = some f ∧ FieldFrom m o lm f := by
  intro ms
  induction ms with
  | nil => intro fs lm _ h; simp at h
  | cons mem rest ih =>
    intro fs lm hf hl
    cases fs with
    | nil => exact hf.elim
    | cons f fs' =>
      obtain ⟨hfm, hrest⟩ := hf
      cases rest with
      | nil =>
        cases fs' with
        | nil =>
          simp only [List.getLast?_singleton, Option.some.injEq] at hl
          subst hl
          exact ⟨f, by simp, hfm⟩
        | cons g gs => exact hrest.elim
      | cons r rs' =>
        cases fs' with
        | nil => exact hrest.elim
        | cons g gs =>
          have hl' : (r :: rs').getLast? = some lm := by simpa [List.getLast?_cons_cons] using hl
          obtain ⟨f', hf', hff⟩ := ih (g :: gs) lm hrest hl'
          exact ⟨f', by simpa [List.getLast?_cons_cons] using hf', hff⟩

/-- **C10** (trailing runtime-sized array).  Under the hypotheses of `C10_struct`, when the last member of the struct is a
runtime-sized array: the last field of the emitted item is `Vec<e>` carrying `#[size(runtime)]`; encase's (alignment, size) of
the element type `e` is the WGSL (AlignOf, SizeOf) of the array's element type, so the element strides agree; the field sits
at the member's WGSL offset (`C10_struct`); hence for EVERY number of elements `k` the byte length encase writes
(`Encase.runtimeLen`) is the WGSL size of the struct with `k` elements (`WgslLayout.runtimeStructSize`). -/
theorem C10_runtime {m : Module} {o : Options} {src : String} {path : Option String} {out : Out}
    (ha : TypeArenaOk m) (hg : gen m o src path = .ok out) (hrepr : o.repr = .glam)
    {g : Global} (hgm : g ∈ m.globals) {h : Nat} {ty : Ty} {ms : List Member} {span : Nat} {n : String}
    (hreach : TyReach m g.ty h) (hty : m.types[h]? = some ty) (hi : ty.inner = .struct ms span) (hn : ty.name = some n)
    {fuel : Nat} (hnat : natural m (fuel + 1) ty = true)
    {lm : Member} {lt : Ty} {base stride : Nat}
    (hlast : ms.getLast? = some lm) (hlt : m.types[lm.ty]? = some lt) (hli : lt.inner = .array base .dynamic stride) :
    ∃ s f e a sz, RustStatic.findStruct out.structs n = some s ∧ s.fields.getLast? = some f ∧
      f.ty = .vec e ∧ f.runtime = true ∧ Meta out.structs e (a, sz) ∧
      (m.types[base]?).bind (WgslLayout.alignSize m (fuel - 1)) = some (a, sz) ∧
      ∃ A, WgslLayout.alignSize m (fuel + 1) ty = some (A, span) ∧ Meta out.structs (.named n) (A, span) ∧
        ∀ k, Encase.runtimeLen A lm.offset (roundUp a sz) k = WgslLayout.runtimeStructSize A lm.offset (roundUp a sz) k := by
  have hem := emitted_of_gen ha hg hgm
  obtain ⟨s, hfind, _, _, _, _, p, hpa, hpm⟩ := C10_struct ha hg hrepr hgm hreach hty hi hn hnat
  have hn' := hnat
  unfold natural at hn'
  simp only [hi, Bool.and_eq_true, beq_iff_eq, List.all_eq_true] at hn'
  obtain ⟨hall, _, _⟩ := hn'
  obtain ⟨s', hfind', hfields⟩ := hem h ty ms span n hty hi hn hreach
  rw [hfind] at hfind'
  cases hfind'
  have hnb : nonBuiltin ms = ms := by
    unfold nonBuiltin
    exact List.filter_eq_self.mpr fun mem hmem => (hall mem hmem).1
  rw [hnb] at hfields
  unfold structMembers at hfields
  have hff := structMembersFrom_pos ms 0 s.fields hfields
  obtain ⟨f, hfl, hfrom⟩ := fieldsFrom_last ms s.fields lm hff hlast
  have hlm : lm ∈ ms := List.mem_of_getLast? hlast
  obtain ⟨ty', hty', _, hcase⟩ := hfrom
  rw [hlt] at hty'
  cases hty'
  have hlnat := (hall lm hlm).2
  rw [hlt] at hlnat
  simp only at hlnat
  rcases hcase with ⟨base', stride', bt, e, hi', hbt, hre, hfty, hrt⟩ | ⟨hnd, _, _⟩
  · rw [hli] at hi'
    injection hi' with hb' _ _
    subst hb'
    rw [hrepr] at hre
    cases fuel with
    | zero => simp [natural] at hlnat
    | succ k =>
      have hnbt : natural m k bt = true := by
        unfold natural at hlnat
        simp only [hli, hbt] at hlnat
        exact hlnat
      have hs1 : lm.ty ∈ typeSucc m h := by
        simp only [typeSucc, hty, hi]
        exact List.mem_map_of_mem hlm
      have hs2 : base ∈ typeSucc m lm.ty := by simp [typeSucc, hlt, hli]
      obtain ⟨⟨a, sz⟩, hea, hem'⟩ := meta_of_natural hrepr hem k base bt (typeFuel m) e hbt
        (tyReach_snoc (tyReach_snoc hreach hs1) hs2) hnbt hre
      -- the struct's own (alignment, size): the size component is the recorded span
      have hspan : p.2 = span := by
        unfold WgslLayout.alignSize at hpa
        simp only [hi] at hpa
        split at hpa
        · injection hpa with hpa; rw [← hpa]
        · cases hpa
      refine ⟨s, f, e, a, sz, hfind, hfl, hfty, hrt, hem', ?_, p.1, ?_, ?_, fun k => rfl⟩
      · show (m.types[base]?).bind (WgslLayout.alignSize m k) = some (a, sz)
        rw [hbt]; exact hea
      · rw [hpa, ← hspan]
      · rw [← hspan]; exact hpm
  · exact absurd hli (hnd base stride)

/-! ## Non-vacuity -/

namespace Example

def ty (name : Option String) (inner : TypeInner) : Ty :=
  { name := name, inner := inner, size := 0, laySize := 0, layAlign := 0, snake := "" }

/-- ```wgsl
struct Inner { a: vec3<f32>, b: f32 }                                  // 0, 12          size 16
struct Mid   { x: f32, inner: Inner, arr: array<Inner, 2> }            // 0, 16, 32      size 64
struct Outer { m: mat3x3<f32>, v: vec2<u32>, mid: Mid, k: array<vec3<f32>, 2> }   // 0, 48, 64, 128  size 160
@group(0) @binding(0) var<storage> o: Outer;
``` -/
def outerTy (vOffset : Nat) : Ty :=
  ty (some "Outer") (.struct [⟨some "m", 5, none, 0⟩, ⟨some "v", 6, none, vOffset⟩, ⟨some "mid", 4, none, 64⟩, ⟨some "k", 7, none, 128⟩] 160)

def modl (vOffset : Nat) : Module :=
  { types :=
      [ ty none (.scalar ⟨.float, 4⟩),                                                          -- 0
        ty none (.vector .tri ⟨.float, 4⟩),                                                     -- 1
        ty (some "Inner") (.struct [⟨some "a", 1, none, 0⟩, ⟨some "b", 0, none, 12⟩] 16),       -- 2
        ty none (.array 2 (.const 2) 16),                                                        -- 3
        ty (some "Mid") (.struct [⟨some "x", 0, none, 0⟩, ⟨some "inner", 2, none, 16⟩, ⟨some "arr", 3, none, 32⟩] 64),  -- 4
        ty none (.matrix .tri .tri ⟨.float, 4⟩),                                                -- 5
        ty none (.vector .bi ⟨.uint, 4⟩),                                                       -- 6
        ty none (.array 1 (.const 2) 16),                                                        -- 7
        outerTy vOffset ],                                                                       -- 8
    globals := [], consts := [], overrides := [], functions := [], entries := [] }

/-- the three nested structs are in the domain ... -/
example : natural (modl 48) 10 (outerTy 48) = true := by decide
/-- ... and `@align(16) v` (which moves `v` to 64 in a real module; here only the recorded offset differs) is not -/
example : natural (modl 56) 10 (outerTy 56) = false := by decide

/-- the items the generator emits for it under glam -/
def emitted : List RStruct :=
  [ { name := "Inner", reprC := true, derives := [], asserts := [],
      fields := [⟨"a", .glam "Vec3", false⟩, ⟨"b", .prim "f32", false⟩] },
    { name := "Mid", reprC := true, derives := [], asserts := [],
      fields := [⟨"x", .prim "f32", false⟩, ⟨"inner", .named "Inner", false⟩, ⟨"arr", .array (.named "Inner") 2, false⟩] },
    { name := "Outer", reprC := true, derives := [], asserts := [],
      fields := [⟨"m", .glam "Mat3", false⟩, ⟨"v", .glam "UVec2", false⟩, ⟨"mid", .named "Mid", false⟩,
                 ⟨"k", .array (.glam "Vec3") 2, false⟩] } ]

example : structMembers (modl 48) { (default : Options) with repr := .glam }
    [⟨some "x", 0, none, 0⟩, ⟨some "inner", 2, none, 16⟩, ⟨some "arr", 3, none, 32⟩] =
    .ok [⟨"x", .prim "f32", false⟩, ⟨"inner", .named "Inner", false⟩, ⟨"arr", .array (.named "Inner") 2, false⟩] := by rfl

/-- encase's evaluator on those items: alignment 16, size 160 = WGSL -/
example : Encase.structMeta emitted 4 "Outer" = some (16, 160) := by decide
example : WgslLayout.alignSize (modl 48) 10 (outerTy 48) = some (16, 160) := by decide
example : Encase.structMeta emitted 4 "Mid" = some (16, 64) := by decide
/-- too little fuel for the nesting depth: no answer (the theorem speaks about answers only) -/
example : Encase.structMeta emitted 2 "Outer" = none := by decide

/-- ```wgsl
struct Buf { count: u32, items: array<Inner> }     // 0, 16; with one element 32 bytes
@group(0) @binding(1) var<storage> b: Buf;
``` -/
def bufTy : Ty := ty (some "Buf") (.struct [⟨some "count", 10, none, 0⟩, ⟨some "items", 9, none, 16⟩] 32)

def modlRt : Module :=
  { (modl 48) with types := (modl 48).types ++
      [ ty none (.array 2 .dynamic 16),            -- 9
        ty none (.scalar ⟨.uint, 4⟩),              -- 10
        bufTy ] }                                   -- 11

example : natural modlRt 10 bufTy = true := by decide
example : WgslLayout.alignSize modlRt 10 bufTy = some (16, 32) := by decide

def emittedRt : List RStruct :=
  emitted ++ [ { name := "Buf", reprC := false, derives := [], asserts := [],
                 fields := [⟨"count", .prim "u32", false⟩, ⟨"items", .vec (.named "Inner"), true⟩] } ]

example : structMembers modlRt { (default : Options) with repr := .glam }
    [⟨some "count", 10, none, 0⟩, ⟨some "items", 9, none, 16⟩] =
    .ok [⟨"count", .prim "u32", false⟩, ⟨"items", .vec (.named "Inner"), true⟩] := by rfl

example : Encase.structMeta emittedRt 3 "Buf" = some (16, 32) := by decide
/-- 0 and 1 elements: 32 bytes; 3 elements: 64 -/
example : [0, 1, 3].map (Encase.runtimeLen 16 16 16) = [32, 32, 64] := by decide

end Example

end C10S
end WgslVerif
