import WgslVerif.Sexp
import WgslVerif.Out
import WgslVerif.Decode
/-
Decoder for the facts wire format written by `harness/src/facts.rs`. Strict: a part the
extractor marked `missing`/`bad…` makes the section undecodable, and the driver then
reports the whole run as a disagreement.  Driver-side code only.
-/
namespace WgslVerif
open Sexp

namespace DecOut

partial def rustTy? : Sexp → Option RustTy
  | list [atom "prim", str s] => some (.prim s)
  | list [atom "array", t, n] => do pure (.array (← rustTy? t) (← asNat? n))
  | list [atom "glam", str s] => some (.glam s)
  | list [atom "nalgebraV", t, n] => do pure (.nalgebraV (← rustTy? t) (← asNat? n))
  | list [atom "nalgebraM", t, r, c] => do pure (.nalgebraM (← rustTy? t) (← asNat? r) (← asNat? c))
  | list [atom "named", str s] => some (.named s)
  | list [atom "vec", t] => do pure (.vec (← rustTy? t))
  | list [atom "option", t] => do pure (.option (← rustTy? t))
  | list [atom "unknownTy", str s] => some (.unknown s)
  | _ => none

def field? : Sexp → Option RField
  | list [atom "f", str n, t, r] => do pure ⟨n, ← rustTy? t, ← asBool? r⟩
  | _ => none

def assert? : Sexp → Option RAssert
  | list [atom "size", str s, n, str msg] => do pure (.size s (← asNat? n) msg)
  | list [atom "offset", str s, str f, n, str msg] => do pure (.offset s f (← asNat? n) msg)
  | _ => none

def strs? (xs : List Sexp) : Option (List String) := xs.mapM asStr?

def struct? : Sexp → Option RStruct
  | list [atom "struct", str n, rc, list (atom "derives" :: ds), list (atom "fields" :: fs),
          list (atom "asserts" :: as)] => do
    pure ⟨n, ← asBool? rc, ← strs? ds, ← fs.mapM field?, ← as.mapM assert?⟩
  | _ => none

def litVal? : Sexp → Option LitVal
  | list [atom "ival", v, str s] => do pure (.ival (← asInt? v) s)
  | list [atom "fval", b, str s] => do pure (.fval (← asNat? b) s)
  | list [atom "bval", b] => do pure (.bval (← asBool? b))
  | _ => none

def const? : Sexp → Option RConst
  | list [atom "const", str n, str t, v] => do pure ⟨n, t, ← litVal? v⟩
  | _ => none

def conv? : Sexp → Option Conv
  | atom "cast" => some .cast | atom "bool" => some .bool | _ => none

def ovEntry? (tag : String) : Sexp → Option ROverrideEntry
  | list [atom t, str k, str f, c] => if t == tag then do pure ⟨k, f, ← conv? c⟩ else none
  | _ => none

def overrides? : Sexp → Option (Option ROverrides)
  | atom "none" => some none
  | list [atom "some", list (atom "fields" :: fs),
      list [list (atom "required" :: rs), list (atom "optional" :: os), list [atom "mutable", mu]]] => do
    let fields ← fs.mapM fun
      | list [atom "of", str n, t] => do pure (n, ← rustTy? t)
      | _ => none
    pure (some ⟨fields, ← rs.mapM (ovEntry? "re"), ← os.mapM (ovEntry? "oe"), ← asBool? mu⟩)
  | _ => none

def stages? : Sexp → Option Stages
  | list [atom "stages", v, f, c] => do pure ⟨← asBool? v, ← asBool? f, ← asBool? c⟩
  | _ => none

def viewDim? : Sexp → Option ViewDim
  | atom "D1" => some .d1 | atom "D2" => some .d2 | atom "D2Array" => some .d2Array
  | atom "D3" => some .d3 | atom "Cube" => some .cube | atom "CubeArray" => some .cubeArray
  | _ => none

def bindingTy? : Sexp → Option BindingTy
  | list [atom "buffer", atom "uniform", d] => do pure (.buffer .uniform (← asBool? d))
  | list [atom "buffer", list [atom "storage", ro], d] => do
    pure (.buffer (.storage (← asBool? ro)) (← asBool? d))
  | list [atom "texture", s, v, m] => do
    let st ← match s with
      | list [atom "float", f] => (asBool? f).map SampleTy.float
      | atom "sint" => some .sint | atom "uint" => some .uint | atom "depth" => some .depth
      | _ => none
    pure (.texture st (← viewDim? v) (← asBool? m))
  | list [atom "storageTexture", a, str f, v] => do
    let acc ← match a with
      | atom "ReadOnly" => some StAccess.readOnly | atom "WriteOnly" => some .writeOnly
      | atom "ReadWrite" => some .readWrite | atom "Atomic" => some .atomic
      | _ => none
    pure (.storageTexture acc f (← viewDim? v))
  | list [atom "sampler", k] => do
    let k ← match k with
      | atom "Filtering" => some SamplerTy.filtering | atom "NonFiltering" => some .nonFiltering
      | atom "Comparison" => some .comparison
      | _ => none
    pure (.sampler k)
  | _ => none

def entry? : Sexp → Option REntry
  | list [atom "entry", b, s, t] => do pure ⟨← asNat? b, ← stages? s, ← bindingTy? t⟩
  | _ => none

def group? : Sexp → Option RGroup
  | list [atom "group", no, list (atom "layoutFields" :: lfs),
      list [atom "descriptor", str label, list ents],
      list [atom "impl", list [atom "layoutFn", lf],
        list [atom "fromBindings", k, j, str bl, list bes], list [atom "set", si]]] => do
    let lfs ← lfs.mapM fun
      | list [atom "lf", str n, atom "buffer"] => some (n, ResKind.buffer)
      | list [atom "lf", str n, atom "texture"] => some (n, ResKind.texture)
      | list [atom "lf", str n, atom "sampler"] => some (n, ResKind.sampler)
      | _ => none
    let bes ← bes.mapM fun
      | list [atom "be", b, atom c, str f] => do
        let c ← match c with
          | "Buffer" => some ResCtor.buffer | "TextureView" => some .textureView
          | "Sampler" => some .sampler | _ => none
        pure (⟨← asNat? b, c, f⟩ : RBindEntry)
      | _ => none
    pure { no := ← asNat? no, layoutFields := lfs, descLabel := label, entries := ← ents.mapM entry?,
           layoutFnDesc := ← asNat? lf, fromLayoutStruct := ← asNat? k, fromDesc := ← asNat? j,
           bindLabel := bl, bindEntries := bes, setIndex := ← asNat? si }
  | _ => none

def natPair? : Sexp → Option (Nat × Nat)
  | list [a, b] => do pure (← asNat? a, ← asNat? b)
  | _ => none

def strPair? : Sexp → Option (String × String)
  | list [str a, str b] => some (a, b)
  | _ => none

/-- `bindModule` items plus the separately reported `set_bind_groups` function -/
def bindModule? (items : List Sexp) (sbg : Sexp) : Option (Option RBindModule) := do
  if items.isEmpty && (sbg == atom "none") then return none
  let bgFields ← (← Sexp.field? "bindGroupsFields" items).mapM natPair?
  let bgSet ← (← Sexp.field? "bindGroupsSet" items).mapM asNat?
  let traitText ← match ← Sexp.field? "trait" items with
    | [str t] => some t
    | _ => none
  let impls ← (items.filter fun x => (tagged? "passImpl" x).isSome).mapM fun x => do
    match ← tagged? "passImpl" x with
    | str t :: args => pure (⟨t, ← strs? args⟩ : RPassImpl)
    | _ => none
  let known := items.all fun x =>
    (tagged? "bindGroupsFields" x).isSome || (tagged? "bindGroupsSet" x).isSome ||
    (tagged? "trait" x).isSome || (tagged? "passImpl" x).isSome
  if !known then none
  match sbg with
  | list [atom "some", list [atom "setBindGroups", list (atom "params" :: ps), list (atom "calls" :: cs)]] =>
    pure (some ⟨bgFields, bgSet, traitText, impls, ← ps.mapM natPair?, ← cs.mapM asNat?⟩)
  | _ => none

def vertex? : Sexp → Option RVertex
  | list [atom "vs", str n, c, list (atom "attrs" :: as), str so, str ao] => do
    let as ← as.mapM fun
      | list [atom "a", str f, str s, str fld, l] => do pure (⟨f, s, fld, ← asNat? l⟩ : RAttr)
      | _ => none
    pure ⟨n, ← asNat? c, as, so, ao⟩
  | _ => none

def constSrc? : Sexp → Option ConstSrc
  | atom "overrides" => some .overrides | atom "default" => some .default | _ => none

def vertexEntry? : Sexp → Option RVertexEntry
  | list [atom "ve", str f, n, list (atom "params" :: ps), str ec, list (atom "buffers" :: bs), c] => do
    pure ⟨f, ← asNat? n, ← ps.mapM strPair?, ec, ← bs.mapM strPair?, ← constSrc? c⟩
  | _ => none

def fragmentEntry? : Sexp → Option RFragmentEntry
  | list [atom "fe", str f, n, list (atom "params" :: ps), str ec, c] => do
    pure ⟨f, ← asNat? n, ← ps.mapM strPair?, ec, ← constSrc? c⟩
  | _ => none

def compute? : Sexp → Option RCompute
  | list [atom "wg", str n, x, y, z] => do pure (.wg n (← asNat? x) (← asNat? y) (← asNat? z))
  | list [atom "pipeline", str f, str l, str e] => some (.pipeline f l e)
  | _ => none

def source? : Sexp → Option RSource
  | list [atom "some", list [atom "literal", str v, str raw]] => some (.literal v raw)
  | list [atom "some", list [atom "include", str p]] => some (.includeStr p)
  | _ => none

def out? : Sexp → Option Out
  | list (atom "facts" :: fs) => do
    let one (k : String) : Option Sexp := do
      match ← Sexp.field? k fs with
      | [x] => some x
      | _ => none
    let (pg, pr) ← match ← one "pipelineLayout" with
      | list [atom "some", list [atom "pipelineLayout", list (atom "groups" :: gs), list (atom "ranges" :: rs)]] => do
        let rs ← rs.mapM fun
          | list [atom "range", str s, lo, hi] => do pure (⟨s, ← asNat? lo, ← asNat? hi⟩ : RPushRange)
          | _ => none
        pure (← gs.mapM asNat?, rs)
      | _ => none
    let pushStages ← match ← one "pushStages" with
      | atom "none" => some none
      | list [atom "some", list [atom "pushStages", str n, s]] => do pure (some (n, ← stages? s))
      | _ => none
    pure {
      structs := ← (← Sexp.field? "structs" fs).mapM struct?
      consts := ← (← Sexp.field? "consts" fs).mapM const?
      overrides := ← overrides? (← one "overrides")
      groups := ← (← Sexp.field? "groups" fs).mapM group?
      bindModule := ← bindModule? (← Sexp.field? "bindModule" fs) (← one "setBindGroups")
      vertex := ← (← Sexp.field? "vertex" fs).mapM vertex?
      entryConsts := ← (← Sexp.field? "entryConsts" fs).mapM fun
        | list [atom "ec", str a, str b] => some (a, b)
        | _ => none
      vertexEntries := ← (← Sexp.field? "vertexEntries" fs).mapM vertexEntry?
      fragmentEntries := ← (← Sexp.field? "fragmentEntries" fs).mapM fragmentEntry?
      compute := ← (← Sexp.field? "compute" fs).mapM compute?
      source := ← source? (← one "source")
      pushStages := pushStages
      pipelineGroups := pg
      pushRanges := pr
      boiler := ← (← Sexp.field? "boiler" fs).mapM strPair?
      unknown := ← (← Sexp.field? "unknown" fs).mapM fun
        | list [str a, str b] => some (a, b)
        | list [str a, x] => some (a, x.render)
        | _ => none
    }
  | _ => none

/-- Result of one real run. -/
inductive RealResult
  | ok (o : Out)
  | okUndecodable (why : String)
  | err (e : GenError) (msg : String)
  | panic (msg : String)
  deriving Repr, Inhabited

def result? : Sexp → Option RealResult
  | list [atom "ok", f] => match out? f with
    | some o => some (.ok o)
    | none => some (.okUndecodable "facts not decodable")
  | list [atom "okUnparsable", str e] => some (.okUndecodable e)
  | list [atom "err", atom "nonConsecutive"] => some (.err .nonConsecutive "")
  | list [atom "err", atom "duplicateBinding", n] => (asNat? n).map fun n => .err (.duplicateBinding n) ""
  | list [atom "err", atom "parse", str m] => some (.err .parseError m)
  | list [atom "err", atom "validation", str m] => some (.err .validationError m)
  | list [atom "panic", str m] => some (.panic m)
  | _ => none

end DecOut
end WgslVerif
