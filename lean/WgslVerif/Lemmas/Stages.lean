import WgslVerif.Lemmas.Walk
/-
The memoised stage traversal computes call-graph reachability, adds the stage to exactly the
variables used by a reached function, and makes one `update_stages` invocation per reached
function.  Three relations (`QV` visited set, `QS` stage map, `QC` counters) are pushed through
the skeleton lemma `fn_ind`; the recursion over the call graph is by fuel, adequate under
`CallsEarlier`.
-/
namespace WgslVerif

/-! ### stage maps -/

theorem Stages.none_union (s : Stages) : Stages.none.union s = s := by
  cases s; simp [Stages.none, Stages.union]

theorem Stages.has_union (a b : Stages) (g : Stage) :
    (a.union b).has g = (a.has g || b.has g) := by
  cases a; cases b; cases g <;> simp [Stages.union, Stages.has]

theorem Stages.has_none (g : Stage) : Stages.none.has g = false := by
  cases g <;> rfl

theorem Stages.has_ofStage (s g : Stage) : (Stages.ofStage s).has g = true ↔ s = g := by
  cases s <;> cases g <;> simp [Stages.ofStage, Stages.has]

namespace StageMap

theorem get?_add (m : StageMap) (n n' : String) (s : Stages) :
    (m.add n s).get? n' =
      if n = n' then some ((m.getD n).union s) else m.get? n' := by
  induction m with
  | nil =>
    by_cases h : n = n' <;> simp [add, get?, getD, h]
  | cons kv rest ih =>
    obtain ⟨k, v⟩ := kv
    by_cases hk : k = n
    · subst hk
      simp only [add, if_true, get?, getD]
      by_cases h : k = n' <;> simp [h]
    · simp only [add, hk, if_false, get?, getD]
      by_cases h : k = n'
      · subst h
        have : ¬ n = k := fun e => hk e.symm
        simp [this]
      · simp only [h, if_false]
        rw [ih]
        by_cases h2 : n = n'
        · simp [h2, getD]
        · simp [h2]

theorem getD_add (m : StageMap) (n n' : String) (s : Stages) :
    (m.add n s).getD n' = if n = n' then (m.getD n).union s else m.getD n' := by
  unfold getD
  rw [get?_add]
  by_cases h : n = n' <;> simp [h, getD]

end StageMap

/-! ### the call graph -/

/-- handles an arena function may recurse into (call statements anywhere in its body, then
call results among its expressions), in visiting order -/
def succOf (m : Module) (h : Nat) : List Nat :=
  match m.functions[h]? with
  | some f => callsOf (evFn m f)
  | none => []

inductive Reach (m : Module) : Nat → Nat → Prop
  | refl (n) : Reach m n n
  | step {a b c} : b ∈ succOf m a → Reach m b c → Reach m a c

/-- naga's WGSL front end emits functions in dependency order: a call in arena function `h`
targets a function with a smaller handle; entry points call arena functions. -/
structure CallsEarlier (m : Module) : Prop where
  arena : ∀ h s, s ∈ succOf m h → s < h
  entry : ∀ e ∈ m.entries, ∀ s ∈ callsOf (evFn m e.fn), s < m.functions.length

def ClosedBelow (m : Module) (k : Nat) (vis : List Nat) : Prop :=
  ∀ v, v ∈ vis → v < k → ∀ w, Reach m v w → w ∈ vis

theorem Reach.trans {m : Module} {a b c} (h1 : Reach m a b) (h2 : Reach m b c) : Reach m a c := by
  induction h1 with
  | refl => exact h2
  | step hs _ ih => exact Reach.step hs (ih h2)

theorem reach_le {m : Module} (hd : ∀ h s, s ∈ succOf m h → s < h) {a b} (h : Reach m a b) :
    b ≤ a := by
  induction h with
  | refl => exact Nat.le_refl _
  | step hs _ ih => exact Nat.le_trans ih (Nat.le_of_lt (hd _ _ hs))

theorem reach_cases {m : Module} {a c} (h : Reach m a c) :
    c = a ∨ ∃ b, b ∈ succOf m a ∧ Reach m b c := by
  cases h with
  | refl => exact Or.inl rfl
  | step hs hr => exact Or.inr ⟨_, hs, hr⟩

/-- variable `n` is used by an expression of arena function `x` -/
def UsesH (m : Module) (x : Nat) (n : String) : Prop :=
  ∃ f, m.functions[x]? = some f ∧ n ∈ usesOf (evFn m f)

/-- the recursion handed to the walker by `update_stages` running with `fuel + 1` -/
def recOf (m : Module) (stage : Stages) (fuel : Nat) : Nat → StState → StState :=
  fun h s =>
    match m.functions[h]? with
    | some g => updateStages m stage fuel g s
    | none => s

theorem updateStages_succ (m : Module) (stage : Stages) (fuel : Nat) (f : Fn) (st : StState) :
    updateStages m stage (fuel + 1) f st =
      f.exprs.foldl (exprStep m stage (recOf m stage fuel))
        (walkList (recOf m stage fuel) f.body { st with fnVisits := st.fnVisits + 1 }) := rfl

/-! ### relation V: the visited set -/

def QV (m : Module) (n : Nat) (evs : List Ev) (st st' : StState) : Prop :=
  ClosedBelow m n st.visited →
    (∀ x, x ∈ st'.visited ↔ (x ∈ st.visited ∨ ∃ h ∈ callsOf evs, Reach m h x)) ∧
    ClosedBelow m n st'.visited

theorem QV_rel (m : Module) (n : Nat) : WalkRel (QV m n) where
  refl st := fun hc => ⟨fun x => by simp [callsOf], hc⟩
  comp := by
    intro l1 l2 a b c h1 h2 hc
    obtain ⟨m1, c1⟩ := h1 hc
    obtain ⟨m2, c2⟩ := h2 c1
    refine ⟨fun x => ?_, c2⟩
    rw [m2 x, m1 x, callsOf_append]
    simp only [List.mem_append]
    constructor
    · rintro ((h | ⟨s, hs, hr⟩) | ⟨s, hs, hr⟩)
      · exact Or.inl h
      · exact Or.inr ⟨s, Or.inl hs, hr⟩
      · exact Or.inr ⟨s, Or.inr hs, hr⟩
    · rintro (h | ⟨s, (hs | hs), hr⟩)
      · exact Or.inl (Or.inl h)
      · exact Or.inl (Or.inr ⟨s, hs, hr⟩)
      · exact Or.inr ⟨s, hs, hr⟩
  tick st := fun hc => ⟨fun x => by simp [callsOf, StState.tickStmt], hc⟩

theorem QV_use (m : Module) (n : Nat) (stage : Stages) (nm : String) (st : StState) :
    QV m n [.use nm] st { st with stages := st.stages.add nm stage } :=
  fun hc => ⟨fun x => by simp [callsOf], hc⟩

/-- `visitCall` = one step of a memoised DFS -/
theorem visit_specV (m : Module) (stage : Stages) (hd : ∀ h s, s ∈ succOf m h → s < h) :
    ∀ fuel h p (st : StState), h < fuel → h < p → ClosedBelow m p st.visited →
      (∀ x, x ∈ (visitCall (recOf m stage fuel) h st).visited ↔ (x ∈ st.visited ∨ Reach m h x)) ∧
      ClosedBelow m p (visitCall (recOf m stage fuel) h st).visited := by
  intro fuel
  induction fuel with
  | zero => intro h p st hf; omega
  | succ fuel ih =>
    intro h p st hf hp hc
    unfold visitCall
    by_cases hmem : h ∈ st.visited
    · simp only [hmem, if_true]
      refine ⟨fun x => ⟨Or.inl, ?_⟩, hc⟩
      rintro (hx | hx)
      · exact hx
      · exact hc h hmem hp x hx
    · simp only [hmem, if_false]
      -- state after `visited.insert(h)`
      have hcn : ClosedBelow m h (h :: st.visited) := by
        intro v hv hlt w hw
        rcases List.mem_cons.mp hv with rfl | hv
        · omega
        · exact List.mem_cons_of_mem _ (hc v hv (by omega) w hw)
      -- what the body of `h` does to the visited set
      have body : (∀ x, x ∈ (recOf m stage (fuel + 1) h { st with visited := h :: st.visited }).visited ↔
            (x ∈ h :: st.visited ∨ ∃ s ∈ succOf m h, Reach m s x)) ∧
          ClosedBelow m h (recOf m stage (fuel + 1) h { st with visited := h :: st.visited }).visited := by
        unfold recOf
        cases hg : m.functions[h]? with
        | none =>
          simp only
          refine ⟨fun x => ?_, hcn⟩
          simp [succOf, hg]
        | some g =>
          simp only
          rw [updateStages_succ]
          have hA : ∀ s ∈ callsOf (evFn m g), s < h ∧ s < fuel := by
            intro s hs
            have : s ∈ succOf m h := by simp [succOf, hg, hs]
            have := hd h s this
            omega
          have := fn_ind (QV_rel m h) (recOf m stage fuel) (fun s => s < h ∧ s < fuel)
            (fun s hs st' hc' => by
              have := ih s h st' hs.2 hs.1 hc'
              refine ⟨fun x => ?_, this.2⟩
              rw [this.1 x]; simp [callsOf])
            m stage (QV_use m h stage) g
            { st with visited := h :: st.visited, fnVisits := st.fnVisits + 1 } hA hcn
          simpa [succOf, hg] using this
      obtain ⟨hm, hcl⟩ := body
      refine ⟨fun x => ?_, ?_⟩
      · rw [hm x]
        constructor
        · rintro (hx | ⟨s, hs, hr⟩)
          · rcases List.mem_cons.mp hx with rfl | hx
            · exact Or.inr (Reach.refl _)
            · exact Or.inl hx
          · exact Or.inr (Reach.step hs hr)
        · rintro (hx | hx)
          · exact Or.inl (List.mem_cons_of_mem _ hx)
          · rcases reach_cases hx with rfl | ⟨b, hb, hr⟩
            · exact Or.inl (by simp)
            · exact Or.inr ⟨b, hb, hr⟩
      · intro v hv hlt w hw
        rcases (hm v).mp hv with hx | ⟨s, hs, hr⟩
        · rcases List.mem_cons.mp hx with rfl | hx
          · rcases reach_cases hw with rfl | ⟨b, hb, hr⟩
            · exact hv
            · exact (hm w).mpr (Or.inr ⟨b, hb, hr⟩)
          · exact (hm w).mpr (Or.inl (List.mem_cons_of_mem _ (hc v hx hlt w hw)))
        · exact (hm w).mpr (Or.inr ⟨s, hs, Reach.trans hr hw⟩)

/-! ### relation S: the stage map -/

def QS (m : Module) (stage : Stages) (evs : List Ev) (st st' : StState) : Prop :=
  (∀ x ∈ st.visited, x ∈ st'.visited) ∧
  (∀ n g, (st'.stages.getD n).has g = true ↔
    ((st.stages.getD n).has g = true ∨
      (stage.has g = true ∧ (n ∈ usesOf evs ∨ ∃ x, x ∈ st'.visited ∧ x ∉ st.visited ∧ UsesH m x n)))) ∧
  (∀ n, (st'.stages.get? n).isSome = true ↔
    ((st.stages.get? n).isSome = true ∨
      (n ∈ usesOf evs ∨ ∃ x, x ∈ st'.visited ∧ x ∉ st.visited ∧ UsesH m x n)))

/-- a step that changes neither the visited set nor the stage map -/
theorem QS_noop (m : Module) (stage : Stages) (evs : List Ev) (hu : usesOf evs = [])
    (st st' : StState) (hv : st'.visited = st.visited) (hs : st'.stages = st.stages) :
    QS m stage evs st st' := by
  refine ⟨fun x h => hv ▸ h, fun n g => ?_, fun n => ?_⟩
  · rw [hs, hu, hv]
    constructor
    · exact Or.inl
    · rintro (h | ⟨_, (h | ⟨x, hx, hnx, _⟩)⟩)
      · exact h
      · cases h
      · exact absurd hx hnx
  · rw [hs, hu, hv]
    constructor
    · exact Or.inl
    · rintro (h | (h | ⟨x, hx, hnx, _⟩))
      · exact h
      · cases h
      · exact absurd hx hnx

theorem QS_rel (m : Module) (stage : Stages) : WalkRel (QS m stage) where
  refl st := QS_noop m stage [] rfl st st rfl rfl
  comp := by
    intro l1 l2 a b c ⟨m1, s1, p1⟩ ⟨m2, s2, p2⟩
    have key : ∀ n, (n ∈ usesOf (l1 ++ l2) ∨ ∃ x, x ∈ c.visited ∧ x ∉ a.visited ∧ UsesH m x n) ↔
        ((n ∈ usesOf l1 ∨ ∃ x, x ∈ b.visited ∧ x ∉ a.visited ∧ UsesH m x n) ∨
         (n ∈ usesOf l2 ∨ ∃ x, x ∈ c.visited ∧ x ∉ b.visited ∧ UsesH m x n)) := by
      intro n
      rw [usesOf_append, List.mem_append]
      constructor
      · rintro ((h | h) | ⟨x, hc, ha, hu⟩)
        · exact Or.inl (Or.inl h)
        · exact Or.inr (Or.inl h)
        · by_cases hb : x ∈ b.visited
          · exact Or.inl (Or.inr ⟨x, hb, ha, hu⟩)
          · exact Or.inr (Or.inr ⟨x, hc, hb, hu⟩)
      · rintro ((h | ⟨x, hb, ha, hu⟩) | (h | ⟨x, hc, hb, hu⟩))
        · exact Or.inl (Or.inl h)
        · exact Or.inr ⟨x, m2 x hb, ha, hu⟩
        · exact Or.inl (Or.inr h)
        · exact Or.inr ⟨x, hc, fun ha => hb (m1 x ha), hu⟩
    refine ⟨fun x h => m2 x (m1 x h), fun n g => ?_, fun n => ?_⟩
    · rw [s2 n g, s1 n g, key n]
      constructor
      · rintro ((h | ⟨hs, h⟩) | ⟨hs, h⟩)
        · exact Or.inl h
        · exact Or.inr ⟨hs, Or.inl h⟩
        · exact Or.inr ⟨hs, Or.inr h⟩
      · rintro (h | ⟨hs, (h | h)⟩)
        · exact Or.inl (Or.inl h)
        · exact Or.inl (Or.inr ⟨hs, h⟩)
        · exact Or.inr ⟨hs, h⟩
    · rw [p2 n, p1 n, key n]
      constructor
      · rintro ((h | h) | h)
        · exact Or.inl h
        · exact Or.inr (Or.inl h)
        · exact Or.inr (Or.inr h)
      · rintro (h | (h | h))
        · exact Or.inl (Or.inl h)
        · exact Or.inl (Or.inr h)
        · exact Or.inr h
  tick st := QS_noop m stage [.tick] rfl st st.tickStmt rfl rfl

theorem QS_use (m : Module) (stage : Stages) (nm : String) (st : StState) :
    QS m stage [.use nm] st { st with stages := st.stages.add nm stage } := by
  refine ⟨fun _ h => h, fun n g => ?_, fun n => ?_⟩
  · simp only [StageMap.getD_add, usesOf, List.filterMap_cons, List.filterMap_nil,
      List.mem_singleton]
    by_cases h : nm = n
    · subst h
      simp only [if_true, Stages.has_union, Bool.or_eq_true]
      constructor
      · rintro (h | h)
        · exact Or.inl h
        · exact Or.inr ⟨h, Or.inl (by simp)⟩
      · rintro (h | ⟨h, _⟩)
        · exact Or.inl h
        · exact Or.inr h
    · simp only [h, if_false]
      constructor
      · exact Or.inl
      · rintro (h' | ⟨_, (h' | ⟨x, hx, hnx, _⟩)⟩)
        · exact h'
        · exact absurd h'.symm h
        · exact absurd hx hnx
  · simp only [StageMap.get?_add, usesOf, List.filterMap_cons, List.filterMap_nil,
      List.mem_singleton]
    by_cases h : nm = n
    · subst h; simp
    · simp only [h, if_false]
      constructor
      · exact Or.inl
      · rintro (h' | (h' | ⟨x, hx, hnx, _⟩))
        · exact h'
        · exact absurd h'.symm h
        · exact absurd hx hnx

theorem visit_specS (m : Module) (stage : Stages) (hd : ∀ h s, s ∈ succOf m h → s < h) :
    ∀ fuel h (st : StState), h < fuel →
      QS m stage [.call h] st (visitCall (recOf m stage fuel) h st) := by
  intro fuel
  induction fuel with
  | zero => intro h st hf; omega
  | succ fuel ih =>
    intro h st hf
    unfold visitCall
    by_cases hmem : h ∈ st.visited
    · simp only [hmem, if_true]
      exact QS_noop m stage [.call h] rfl st st rfl rfl
    · simp only [hmem, if_false]
      unfold recOf
      cases hg : m.functions[h]? with
      | none =>
        simp only
        refine ⟨fun x hx => List.mem_cons_of_mem _ hx, fun n g => ?_, fun n => ?_⟩
        · constructor
          · exact Or.inl
          · rintro (h' | ⟨_, (h' | ⟨x, hx, hnx, f, hf', _⟩)⟩)
            · exact h'
            · simp [usesOf] at h'
            · rcases List.mem_cons.mp hx with rfl | hx
              · rw [hg] at hf'; cases hf'
              · exact absurd hx hnx
        · constructor
          · exact Or.inl
          · rintro (h' | (h' | ⟨x, hx, hnx, f, hf', _⟩))
            · exact h'
            · simp [usesOf] at h'
            · rcases List.mem_cons.mp hx with rfl | hx
              · rw [hg] at hf'; cases hf'
              · exact absurd hx hnx
      | some g =>
        simp only
        rw [updateStages_succ]
        have hA : ∀ s ∈ callsOf (evFn m g), s < fuel := by
          intro s hs
          have : s ∈ succOf m h := by simp [succOf, hg, hs]
          have := hd h s this
          omega
        have ⟨mo, hs, hp⟩ := fn_ind (QS_rel m stage) (recOf m stage fuel) (fun s => s < fuel)
          (fun s hs st' => ih s st' hs)
          m stage (QS_use m stage) g
          { st with visited := h :: st.visited, fnVisits := st.fnVisits + 1 } hA
        -- re-express "new since insertion of h" + "own uses of h" as "new since before insertion"
        have key : ∀ (n : String) (r : List Nat), (n ∈ usesOf (evFn m g) ∨ ∃ x, x ∈ r ∧ x ∉ h :: st.visited ∧ UsesH m x n) →
            (∀ x ∈ h :: st.visited, x ∈ r) →
            (∃ x, x ∈ r ∧ x ∉ st.visited ∧ UsesH m x n) := by
          intro n r hh hsub
          rcases hh with hu | ⟨x, hx, hnx, hu⟩
          · exact ⟨h, hsub h (by simp), hmem, g, hg, hu⟩
          · exact ⟨x, hx, fun hc => hnx (List.mem_cons_of_mem _ hc), hu⟩
        have key' : ∀ (n : String) (r : List Nat), (∃ x, x ∈ r ∧ x ∉ st.visited ∧ UsesH m x n) →
            (n ∈ usesOf (evFn m g) ∨ ∃ x, x ∈ r ∧ x ∉ h :: st.visited ∧ UsesH m x n) := by
          intro n r ⟨x, hx, hnx, hu⟩
          by_cases hxh : x = h
          · subst hxh
            obtain ⟨f, hf', hu⟩ := hu
            rw [hg] at hf'; cases hf'
            exact Or.inl hu
          · refine Or.inr ⟨x, hx, ?_, hu⟩
            intro hc
            rcases List.mem_cons.mp hc with e | hc
            · exact hxh e
            · exact hnx hc
        refine ⟨fun x hx => mo x (List.mem_cons_of_mem _ hx), fun n gg => ?_, fun n => ?_⟩
        · rw [hs n gg]
          simp only [usesOf, List.filterMap_cons, List.filterMap_nil, List.not_mem_nil, false_or]
          constructor
          · rintro (h' | ⟨hst, h'⟩)
            · exact Or.inl h'
            · exact Or.inr ⟨hst, key n _ h' mo⟩
          · rintro (h' | ⟨hst, h'⟩)
            · exact Or.inl h'
            · exact Or.inr ⟨hst, key' n _ h'⟩
        · rw [hp n]
          simp only [usesOf, List.filterMap_cons, List.filterMap_nil, List.not_mem_nil, false_or]
          constructor
          · rintro (h' | h')
            · exact Or.inl h'
            · exact Or.inr (key n _ h' mo)
          · rintro (h' | h')
            · exact Or.inl h'
            · exact Or.inr (key' n _ h')

/-! ### relation C: the counters -/

/-- largest number of statements visited inside one arena function -/
def maxTicks (m : Module) : Nat :=
  (m.functions.map fun f => ticksOf (evFn m f)).foldr max 0

theorem ticks_le_max (m : Module) (h : Nat) (f : Fn) (hf : m.functions[h]? = some f) :
    ticksOf (evFn m f) ≤ maxTicks m := by
  have hmem : f ∈ m.functions := List.mem_of_getElem? hf
  unfold maxTicks
  generalize m.functions = fs at hmem
  induction fs with
  | nil => cases hmem
  | cons x xs ih =>
    simp only [List.map_cons, List.foldr_cons]
    rcases List.mem_cons.mp hmem with e | hx
    · subst e; exact Nat.le_max_left _ _
    · exact Nat.le_trans (ih hx) (Nat.le_max_right _ _)

def QC (S : Nat) (evs : List Ev) (st st' : StState) : Prop :=
  st.fnVisits ≤ st'.fnVisits ∧
  st'.fnVisits + st.visited.length = st.fnVisits + st'.visited.length ∧
  st'.stmtVisits + S * st.fnVisits ≤ st.stmtVisits + ticksOf evs + S * st'.fnVisits ∧
  (st.visited.Nodup → st'.visited.Nodup)

theorem QC_rel (S : Nat) : WalkRel (QC S) where
  refl st := ⟨Nat.le_refl _, rfl, by simp [ticksOf], id⟩
  comp := by
    intro l1 l2 a b c ⟨f1, e1, t1, n1⟩ ⟨f2, e2, t2, n2⟩
    refine ⟨Nat.le_trans f1 f2, by omega, ?_, fun h => n2 (n1 h)⟩
    rw [ticksOf_append]; omega
  tick st := ⟨Nat.le_refl _, rfl, by simp [ticksOf, StState.tickStmt], id⟩

theorem QC_use (S : Nat) (stage : Stages) (nm : String) (st : StState) :
    QC S [.use nm] st { st with stages := st.stages.add nm stage } :=
  ⟨Nat.le_refl _, rfl, by simp [ticksOf], id⟩

theorem visit_specC (m : Module) (stage : Stages) (hd : ∀ h s, s ∈ succOf m h → s < h) :
    ∀ fuel h (st : StState), h < fuel → h < m.functions.length →
      QC (maxTicks m) [.call h] st (visitCall (recOf m stage fuel) h st) := by
  intro fuel
  induction fuel with
  | zero => intro h st hf; omega
  | succ fuel ih =>
    intro h st hf hlen
    unfold visitCall
    by_cases hmem : h ∈ st.visited
    · simp only [hmem, if_true]
      exact ⟨Nat.le_refl _, rfl, by simp [ticksOf], id⟩
    · simp only [hmem, if_false]
      unfold recOf
      have hsome : ∃ g, m.functions[h]? = some g := ⟨m.functions[h], List.getElem?_eq_getElem hlen⟩
      obtain ⟨g, hg⟩ := hsome
      simp only [hg]
      rw [updateStages_succ]
      have hA : ∀ s ∈ callsOf (evFn m g), s < fuel ∧ s < m.functions.length := by
        intro s hs
        have : s ∈ succOf m h := by simp [succOf, hg, hs]
        have := hd h s this
        omega
      have key := fn_ind (QC_rel (maxTicks m)) (recOf m stage fuel)
        (fun s => s < fuel ∧ s < m.functions.length)
        (fun s hs st' => ih s st' hs.1 hs.2)
        m stage (QC_use (maxTicks m) stage) g
        { st with visited := h :: st.visited, fnVisits := st.fnVisits + 1 } hA
      have hS := ticks_le_max m h g hg
      change QC (maxTicks m) [Ev.call h] st
        (List.foldl (exprStep m stage (recOf m stage fuel))
          (walkList (recOf m stage fuel) g.body
            { st with visited := h :: st.visited, fnVisits := st.fnVisits + 1 }) g.exprs)
      generalize List.foldl (exprStep m stage (recOf m stage fuel))
          (walkList (recOf m stage fuel) g.body
            { st with visited := h :: st.visited, fnVisits := st.fnVisits + 1 }) g.exprs = res at key ⊢
      obtain ⟨f1, e1, t1, n1⟩ := key
      dsimp only [List.length_cons] at f1 e1 t1 n1
      refine ⟨by omega, by omega, ?_, fun hn => n1 (List.nodup_cons.mpr ⟨hmem, hn⟩)⟩
      have : ticksOf [Ev.call h] = 0 := by simp [ticksOf]
      rw [this]
      have : maxTicks m * (st.fnVisits + 1) = maxTicks m * st.fnVisits + maxTicks m := by
        rw [Nat.mul_add, Nat.mul_one]
      omega

end WgslVerif
