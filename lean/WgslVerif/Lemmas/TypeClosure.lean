import WgslVerif.Model.TypeClosure
import WgslVerif.Lemmas.StagesEntry
/-
`add_types_recursive` with the early return is a memoised DFS over the type graph:
the resulting set is exactly the set of types reachable from the variable types, and the
number of invocations is bounded by `#globals + maxDeg * #types`.
(ported from notes/dfs_feasibility_probe.lean.txt, with the invocation counter added)
-/
namespace WgslVerif

/-- type `b` is reachable from type `a` through members, array / pointer / binding-array bases -/
inductive TyReach (m : Module) : Nat → Nat → Prop
  | refl (n) : TyReach m n n
  | step {a b c} : b ∈ typeSucc m a → TyReach m b c → TyReach m a c

/-- a type refers only to types with a smaller arena index (`UniqueArena` construction) -/
def TypesEarlier (m : Module) : Prop := ∀ t s, s ∈ typeSucc m t → s < t

def TyClosedBelow (m : Module) (k : Nat) (vis : List Nat) : Prop :=
  ∀ v, v ∈ vis → v < k → ∀ w, TyReach m v w → w ∈ vis

theorem TyReach.trans {m : Module} {a b c} (h1 : TyReach m a b) (h2 : TyReach m b c) : TyReach m a c := by
  induction h1 with
  | refl => exact h2
  | step hs _ ih => exact TyReach.step hs (ih h2)

theorem tyReach_le {m : Module} (hd : TypesEarlier m) {a b} (h : TyReach m a b) : b ≤ a := by
  induction h with
  | refl => exact Nat.le_refl _
  | step hs _ ih => exact Nat.le_trans ih (Nat.le_of_lt (hd _ _ hs))

theorem tyReach_cases {m : Module} {a c} (h : TyReach m a c) :
    c = a ∨ ∃ b, b ∈ typeSucc m a ∧ TyReach m b c := by
  cases h with
  | refl => exact Or.inl rfl
  | step hs hr => exact Or.inr ⟨_, hs, hr⟩

/-- largest out-degree of the type graph -/
def maxDeg (m : Module) : Nat :=
  ((List.range m.types.length).map fun t => (typeSucc m t).length).foldr max 0

theorem deg_le_max (m : Module) (t : Nat) : (typeSucc m t).length ≤ maxDeg m := by
  by_cases ht : t < m.types.length
  · unfold maxDeg
    have hmem : t ∈ List.range m.types.length := List.mem_range.mpr ht
    generalize List.range m.types.length = l at hmem
    induction l with
    | nil => cases hmem
    | cons x xs ih =>
      simp only [List.map_cons, List.foldr_cons]
      rcases List.mem_cons.mp hmem with e | hx
      · subst e; exact Nat.le_max_left _ _
      · exact Nat.le_trans (ih hx) (Nat.le_max_right _ _)
  · have : m.types[t]? = none := List.getElem?_eq_none (by omega)
    simp [typeSucc, this]

/-- what one `add_types_recursive` call (or a sequence of calls) guarantees -/
structure TySpec (m : Module) (p : Nat) (roots : List Nat) (a r : List Nat × Nat) : Prop where
  mem : ∀ x, x ∈ r.1 ↔ (x ∈ a.1 ∨ ∃ s ∈ roots, TyReach m s x)
  closed : TyClosedBelow m p r.1
  count : r.2 + maxDeg m * a.1.length ≤ a.2 + roots.length + maxDeg m * r.1.length
  nodup : a.1.Nodup → r.1.Nodup
  mono : a.1.length ≤ r.1.length

theorem addTypes_fold_spec (m : Module) (fuel n : Nat)
    (ih : ∀ s p (a : List Nat × Nat), s < fuel → s < p → TyClosedBelow m p a.1 →
      TySpec m p [s] a (addTypes m fuel s a)) :
    ∀ (l : List Nat) (cur : List Nat × Nat), (∀ s, s ∈ l → s < n ∧ s < fuel) → TyClosedBelow m n cur.1 →
      TySpec m n l cur (l.foldl (fun a s => addTypes m fuel s a) cur) := by
  intro l
  induction l with
  | nil =>
    intro cur _ hc
    exact ⟨fun x => by simp, hc, by simp, id, Nat.le_refl _⟩
  | cons s l ihl =>
    intro cur hl hc
    have hs := hl s (by simp)
    have h1 := ih s n cur hs.2 hs.1 hc
    have h2 := ihl (addTypes m fuel s cur) (fun t ht => hl t (by simp [ht])) h1.closed
    simp only [List.foldl_cons]
    refine ⟨fun x => ?_, h2.closed, ?_, fun hn => h2.nodup (h1.nodup hn), Nat.le_trans h1.mono h2.mono⟩
    · rw [h2.mem x, h1.mem x]
      constructor
      · rintro ((h | ⟨t, ht, hr⟩) | ⟨t, ht, hr⟩)
        · exact Or.inl h
        · simp at ht; subst ht; exact Or.inr ⟨t, by simp, hr⟩
        · exact Or.inr ⟨t, by simp [ht], hr⟩
      · rintro (h | ⟨t, ht, hr⟩)
        · exact Or.inl (Or.inl h)
        · rcases List.mem_cons.mp ht with rfl | ht
          · exact Or.inl (Or.inr ⟨t, by simp, hr⟩)
          · exact Or.inr ⟨t, ht, hr⟩
    · have c1 := h1.count
      have c2 := h2.count
      simp only [List.length_cons, List.length_nil] at c1 ⊢
      omega

theorem addTypes_spec (m : Module) (hd : TypesEarlier m) :
    ∀ fuel n p (a : List Nat × Nat), n < fuel → n < p → TyClosedBelow m p a.1 →
      TySpec m p [n] a (addTypes m fuel n a) := by
  intro fuel
  induction fuel with
  | zero => intro n p a h; omega
  | succ fuel ih =>
    intro n p a hn hp hc
    obtain ⟨vis, cnt⟩ := a
    unfold addTypes
    by_cases hmem : n ∈ vis
    · simp only [hmem, if_true]
      refine ⟨fun x => ⟨Or.inl, ?_⟩, hc, by simp, id, Nat.le_refl _⟩
      rintro (h | ⟨s, hs, hr⟩)
      · exact h
      · simp at hs; subst hs; exact hc s hmem hp x hr
    · simp only [hmem, if_false]
      have hcn : TyClosedBelow m n (n :: vis) := by
        intro v hv hlt w hw
        rcases List.mem_cons.mp hv with rfl | hv
        · omega
        · exact List.mem_cons_of_mem _ (hc v hv (by omega) w hw)
      have hf := addTypes_fold_spec m fuel n ih (typeSucc m n) (n :: vis, cnt + 1)
        (fun s hs => ⟨hd n s hs, by have := hd n s hs; omega⟩) hcn
      generalize (typeSucc m n).foldl (fun a s => addTypes m fuel s a) (n :: vis, cnt + 1) = r at hf
      obtain ⟨hm, hcl, hcount, hnd, hmono⟩ := hf
      refine ⟨fun x => ?_, ?_, ?_, fun hn' => hnd (List.nodup_cons.mpr ⟨hmem, hn'⟩), ?_⟩
      · rw [hm x]
        constructor
        · rintro (h | ⟨s, hs, hr⟩)
          · rcases List.mem_cons.mp h with rfl | h
            · exact Or.inr ⟨x, by simp, TyReach.refl _⟩
            · exact Or.inl h
          · exact Or.inr ⟨n, by simp, TyReach.step hs hr⟩
        · rintro (h | ⟨s, hs, hr⟩)
          · exact Or.inl (List.mem_cons_of_mem _ h)
          · simp at hs; subst hs
            rcases tyReach_cases hr with rfl | ⟨b, hb, hr'⟩
            · exact Or.inl (by simp)
            · exact Or.inr ⟨b, hb, hr'⟩
      · intro v hv hlt w hw
        rcases (hm v).mp hv with h | ⟨s, hs, hr⟩
        · rcases List.mem_cons.mp h with rfl | h
          · rcases tyReach_cases hw with rfl | ⟨b, hb, hr⟩
            · exact hv
            · exact (hm w).mpr (Or.inr ⟨b, hb, hr⟩)
          · exact (hm w).mpr (Or.inl (List.mem_cons_of_mem _ (hc v h hlt w hw)))
        · exact (hm w).mpr (Or.inr ⟨s, hs, TyReach.trans hr hw⟩)
      · have hdeg := deg_le_max m n
        dsimp only at hcount ⊢
        simp only [List.length_cons, List.length_nil] at hcount ⊢
        have : maxDeg m * (vis.length + 1) = maxDeg m * vis.length + maxDeg m := by
          rw [Nat.mul_add, Nat.mul_one]
        omega
      · dsimp only at hmono ⊢
        simp only [List.length_cons] at hmono; omega

/-- the loop over the global variables -/
theorem globals_fold_spec (m : Module) (hd : TypesEarlier m) :
    ∀ (gs : List Global) (a : List Nat × Nat), (∀ g ∈ gs, g.ty < m.types.length) →
      TyClosedBelow m m.types.length a.1 →
      TySpec m m.types.length (gs.map (·.ty)) a
        (gs.foldl (fun a g => addTypes m (m.types.length + 1) g.ty a) a) := by
  intro gs
  induction gs with
  | nil => intro a _ hc; exact ⟨fun x => by simp, hc, by simp, id, Nat.le_refl _⟩
  | cons g gs ih =>
    intro a hb hc
    have hg := hb g (by simp)
    have h1 := addTypes_spec m hd (m.types.length + 1) g.ty m.types.length a (by omega) hg hc
    have h2 := ih (addTypes m (m.types.length + 1) g.ty a) (fun x hx => hb x (by simp [hx])) h1.closed
    simp only [List.foldl_cons, List.map_cons]
    refine ⟨fun x => ?_, h2.closed, ?_, fun hn => h2.nodup (h1.nodup hn), Nat.le_trans h1.mono h2.mono⟩
    · rw [h2.mem x, h1.mem x]
      constructor
      · rintro ((h | ⟨t, ht, hr⟩) | ⟨t, ht, hr⟩)
        · exact Or.inl h
        · simp at ht; subst ht; exact Or.inr ⟨g.ty, by simp, hr⟩
        · exact Or.inr ⟨t, by simp [ht], hr⟩
      · rintro (h | ⟨t, ht, hr⟩)
        · exact Or.inl (Or.inl h)
        · rcases List.mem_cons.mp ht with rfl | ht
          · exact Or.inl (Or.inr ⟨g.ty, by simp, hr⟩)
          · exact Or.inr ⟨t, ht, hr⟩
    · have c1 := h1.count
      have c2 := h2.count
      simp only [List.length_cons, List.length_nil, List.length_map] at c1 c2 ⊢
      omega

/-- **closure**: `global_variable_types` = the types reachable from a module-scope variable -/
theorem globalVariableTypes_mem (m : Module) (hd : TypesEarlier m)
    (hb : ∀ g ∈ m.globals, g.ty < m.types.length) (x : Nat) :
    x ∈ globalVariableTypes m ↔ ∃ g ∈ m.globals, TyReach m g.ty x := by
  have h := globals_fold_spec m hd m.globals ([], 0) hb (by intro v hv; cases hv)
  unfold globalVariableTypes globalVariableTypesSt
  rw [h.mem x]
  simp only [List.not_mem_nil, false_or, List.mem_map]
  constructor
  · rintro ⟨s, ⟨g, hg, rfl⟩, hr⟩; exact ⟨g, hg, hr⟩
  · rintro ⟨g, hg, hr⟩; exact ⟨g.ty, ⟨g, hg, rfl⟩, hr⟩

/-- **C20** (type closure): invocations of `add_types_recursive` are bounded by
`#globals + maxDeg × #types` – no multiplication with the nesting depth. -/
theorem typeVisits_bound (m : Module) (hd : TypesEarlier m)
    (hb : ∀ g ∈ m.globals, g.ty < m.types.length) :
    (globalVariableTypesSt m).2 ≤ m.globals.length + maxDeg m * m.types.length := by
  have h := globals_fold_spec m hd m.globals ([], 0) hb (by intro v hv; cases hv)
  have hn : (globalVariableTypesSt m).1.Nodup := h.nodup (by simp)
  have hlt : ∀ x ∈ (globalVariableTypesSt m).1, x < m.types.length := by
    intro x hx
    rcases (h.mem x).mp hx with h' | ⟨s, hs, hr⟩
    · cases h'
    · obtain ⟨g, hg, rfl⟩ := List.mem_map.mp hs
      have := tyReach_le hd hr
      have := hb g hg
      omega
  have hl := nodup_lt_length m.types.length _ hn hlt
  have hc := h.count
  simp only [List.length_nil, List.length_map, Nat.mul_zero, Nat.add_zero, Nat.zero_add] at hc
  have : maxDeg m * (globalVariableTypesSt m).1.length ≤ maxDeg m * m.types.length :=
    Nat.mul_le_mul_left _ hl
  unfold globalVariableTypesSt at *
  omega

end WgslVerif
