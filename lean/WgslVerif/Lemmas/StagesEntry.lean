import WgslVerif.Lemmas.Stages
/-
Per-entry-point and whole-module consequences of the traversal lemmas, and the bridge between
event lists and the statement-level specification (`Occurs`, `CallsFn`, `UsesFn`).
-/
namespace WgslVerif

/-! ### statement-level specification of "calls" and "uses" -/

/-- a call to `g` occurs somewhere inside statement `s` (all block-carrying constructors) -/
inductive Occurs (g : Nat) : Stmt → Prop
  | call (r) : Occurs g (.call g r)
  | block {b s} : s ∈ b → Occurs g s → Occurs g (.block b)
  | ifAcc {a r s} : s ∈ a → Occurs g s → Occurs g (.ifs a r)
  | ifRej {a r s} : s ∈ r → Occurs g s → Occurs g (.ifs a r)
  | switch {cs c s} : c ∈ cs → s ∈ c → Occurs g s → Occurs g (.switch cs)
  | loopBody {b c s} : s ∈ b → Occurs g s → Occurs g (.loop b c)
  | loopCont {b c s} : s ∈ c → Occurs g s → Occurs g (.loop b c)

/-- `f` calls `h`: through a call statement anywhere in its body or a call result among its
expressions -/
def CallsFn (f : Fn) (h : Nat) : Prop :=
  (∃ s ∈ f.body, Occurs h s) ∨ Expr.callResult h ∈ f.exprs

/-- `f` has an expression referring to the module-scope variable named `n` -/
def UsesFn (m : Module) (f : Fn) (n : String) : Prop :=
  ∃ g, Expr.global g ∈ f.exprs ∧ (m.globals[g]?).bind (·.name) = some n

mutual
theorem call_mem_evStmt (g : Nat) : ∀ s, Ev.call g ∈ evStmt s ↔ Occurs g s
  | .call f r => by
      simp only [evStmt, List.mem_cons, List.not_mem_nil, or_false, reduceCtorEq, false_or,
        Ev.call.injEq]
      constructor
      · rintro rfl; exact .call r
      · intro h; cases h; rfl
  | .block b => by
      simp only [evStmt, List.mem_cons, reduceCtorEq, false_or]
      rw [call_mem_evList g b]
      constructor
      · rintro ⟨s, hs, h⟩; exact .block hs h
      · intro h; cases h with | block hs h => exact ⟨_, hs, h⟩
  | .ifs a r => by
      simp only [evStmt, List.mem_cons, reduceCtorEq, false_or, List.mem_append]
      rw [call_mem_evList g a, call_mem_evList g r]
      constructor
      · rintro (⟨s, hs, h⟩ | ⟨s, hs, h⟩)
        · exact .ifAcc hs h
        · exact .ifRej hs h
      · intro h
        cases h with
        | ifAcc hs h => exact Or.inl ⟨_, hs, h⟩
        | ifRej hs h => exact Or.inr ⟨_, hs, h⟩
  | .switch cs => by
      simp only [evStmt, List.mem_cons, reduceCtorEq, false_or]
      rw [call_mem_evCases g cs]
      constructor
      · rintro ⟨c, hc, s, hs, h⟩; exact .switch hc hs h
      · intro h; cases h with | switch hc hs h => exact ⟨_, hc, _, hs, h⟩
  | .loop b c => by
      simp only [evStmt, List.mem_cons, reduceCtorEq, false_or, List.mem_append]
      rw [call_mem_evList g b, call_mem_evList g c]
      constructor
      · rintro (⟨s, hs, h⟩ | ⟨s, hs, h⟩)
        · exact .loopBody hs h
        · exact .loopCont hs h
      · intro h
        cases h with
        | loopBody hs h => exact Or.inl ⟨_, hs, h⟩
        | loopCont hs h => exact Or.inr ⟨_, hs, h⟩
  | .other t => by
      simp only [evStmt, List.mem_cons, List.not_mem_nil, or_false, reduceCtorEq, false_iff]
      intro h; cases h
theorem call_mem_evList (g : Nat) : ∀ l, Ev.call g ∈ evList l ↔ ∃ s, s ∈ l ∧ Occurs g s
  | [] => by simp [evList]
  | s :: ss => by
      simp only [evList, List.mem_append, List.mem_cons]
      rw [call_mem_evStmt g s, call_mem_evList g ss]
      constructor
      · rintro (h | ⟨t, ht, h⟩)
        · exact ⟨s, Or.inl rfl, h⟩
        · exact ⟨t, Or.inr ht, h⟩
      · rintro ⟨t, (rfl | ht), h⟩
        · exact Or.inl h
        · exact Or.inr ⟨t, ht, h⟩
theorem call_mem_evCases (g : Nat) : ∀ cs, Ev.call g ∈ evCases cs ↔ ∃ c, c ∈ cs ∧ ∃ s, s ∈ c ∧ Occurs g s
  | [] => by simp [evCases]
  | c :: cs => by
      simp only [evCases, List.mem_append, List.mem_cons]
      rw [call_mem_evList g c, call_mem_evCases g cs]
      constructor
      · rintro (h | ⟨d, hd, h⟩)
        · exact ⟨c, Or.inl rfl, h⟩
        · exact ⟨d, Or.inr hd, h⟩
      · rintro ⟨d, (rfl | hd), h⟩
        · exact Or.inl h
        · exact Or.inr ⟨d, hd, h⟩
end

mutual
theorem use_not_mem_evStmt (n : String) : ∀ s, Ev.use n ∉ evStmt s
  | .call f r => by simp [evStmt]
  | .block b => by simp [evStmt, use_not_mem_evList n b]
  | .ifs a r => by simp [evStmt, use_not_mem_evList n a, use_not_mem_evList n r]
  | .switch cs => by simp [evStmt, use_not_mem_evCases n cs]
  | .loop b c => by simp [evStmt, use_not_mem_evList n b, use_not_mem_evList n c]
  | .other t => by simp [evStmt]
theorem use_not_mem_evList (n : String) : ∀ l, Ev.use n ∉ evList l
  | [] => by simp [evList]
  | s :: ss => by simp [evList, use_not_mem_evStmt n s, use_not_mem_evList n ss]
theorem use_not_mem_evCases (n : String) : ∀ cs, Ev.use n ∉ evCases cs
  | [] => by simp [evCases]
  | c :: cs => by simp [evCases, use_not_mem_evList n c, use_not_mem_evCases n cs]
end

theorem call_mem_evExprs (m : Module) (h : Nat) :
    ∀ es, Ev.call h ∈ evExprs m es ↔ Expr.callResult h ∈ es
  | [] => by simp [evExprs]
  | e :: es => by
      have ih := call_mem_evExprs m h es
      cases e with
      | global g =>
        simp only [evExprs]
        cases (m.globals[g]?).bind (·.name) <;> simp [ih]
      | callResult f => simp [evExprs, ih]
      | other => simp [evExprs, ih]

theorem use_mem_evExprs (m : Module) (n : String) :
    ∀ es, Ev.use n ∈ evExprs m es ↔
      ∃ g, Expr.global g ∈ es ∧ (m.globals[g]?).bind (·.name) = some n
  | [] => by simp [evExprs]
  | e :: es => by
      have ih := use_mem_evExprs m n es
      cases e with
      | global g =>
        simp only [evExprs]
        cases hg : (m.globals[g]?).bind (·.name) with
        | none =>
          simp only [ih, List.mem_cons, Expr.global.injEq]
          constructor
          · rintro ⟨g', h1, h2⟩; exact ⟨g', Or.inr h1, h2⟩
          · rintro ⟨g', (rfl | h1), h2⟩
            · rw [hg] at h2; cases h2
            · exact ⟨g', h1, h2⟩
        | some n' =>
          simp only [List.mem_cons, Ev.use.injEq, ih, Expr.global.injEq]
          constructor
          · rintro (rfl | ⟨g', h1, h2⟩)
            · exact ⟨g, Or.inl rfl, hg⟩
            · exact ⟨g', Or.inr h1, h2⟩
          · rintro ⟨g', (rfl | h1), h2⟩
            · rw [hg] at h2; injection h2 with h2; exact Or.inl h2.symm
            · exact Or.inr ⟨g', h1, h2⟩
      | callResult f =>
        simp only [evExprs, List.mem_cons, reduceCtorEq, false_or, ih]
      | other =>
        simp only [evExprs, List.mem_cons, reduceCtorEq, false_or, ih]

theorem mem_callsOf_evFn (m : Module) (f : Fn) (h : Nat) :
    h ∈ callsOf (evFn m f) ↔ CallsFn f h := by
  rw [mem_callsOf, evFn, List.mem_append, call_mem_evList, call_mem_evExprs]
  rfl

theorem mem_usesOf_evFn (m : Module) (f : Fn) (n : String) :
    n ∈ usesOf (evFn m f) ↔ UsesFn m f n := by
  rw [mem_usesOf, evFn, List.mem_append, use_mem_evExprs]
  constructor
  · rintro (h | h)
    · exact absurd h (use_not_mem_evList n f.body)
    · exact h
  · exact Or.inr

/-! ### one entry point -/

theorem nodup_lt_length : ∀ (n : Nat) (l : List Nat), l.Nodup → (∀ x ∈ l, x < n) → l.length ≤ n := by
  intro n
  induction n with
  | zero =>
    intro l _ hb
    cases l with
    | nil => simp
    | cons x xs => have := hb x (by simp); omega
  | succ n ih =>
    intro l hn hb
    have h1 : (l.erase n).Nodup := hn.erase n
    have h2 : ∀ x ∈ l.erase n, x < n := by
      intro x hx
      have := (hn.mem_erase_iff).mp hx
      have := hb x this.2
      omega
    have := ih (l.erase n) h1 h2
    have hl := List.length_erase (a := n) (l := l)
    split at hl <;> omega

/-- what an entry point statically uses, in event terms -/
def EntryUses (m : Module) (e : EntryPoint) (n : String) : Prop :=
  n ∈ usesOf (evFn m e.fn) ∨ ∃ s ∈ callsOf (evFn m e.fn), ∃ x, Reach m s x ∧ UsesH m x n

theorem entryStep_spec (m : Module) (hv : CallsEarlier m) (e : EntryPoint) (he : e ∈ m.entries)
    (st : StState) :
    (∀ n g, ((entryStep m st e).stages.getD n).has g = true ↔
      ((st.stages.getD n).has g = true ∨ (e.stage = g ∧ EntryUses m e n))) ∧
    (∀ n, ((entryStep m st e).stages.get? n).isSome = true ↔
      ((st.stages.get? n).isSome = true ∨ EntryUses m e n)) ∧
    (entryStep m st e).fnVisits ≤ st.fnVisits + 1 + m.functions.length ∧
    (entryStep m st e).stmtVisits ≤
      st.stmtVisits + ticksOf (evFn m e.fn) + maxTicks m * m.functions.length := by
  have hA := hv.entry e he
  let stage := Stages.ofStage e.stage
  let len := m.functions.length
  let st1 : StState := { st with visited := [], fnVisits := st.fnVisits + 1 }
  have hstep : entryStep m st e =
      e.fn.exprs.foldl (exprStep m stage (recOf m stage len)) (walkList (recOf m stage len) e.fn.body st1) := rfl
  have kV := fn_ind (QV_rel m len) (recOf m stage len) (fun s => s < len)
    (fun s hs st' hc' => by
      have := visit_specV m stage hv.arena len s len st' hs hs hc'
      refine ⟨fun x => ?_, this.2⟩
      rw [this.1 x]; simp [callsOf])
    m stage (QV_use m len stage) e.fn st1 hA (by intro v hv'; cases hv')
  have kS := fn_ind (QS_rel m stage) (recOf m stage len) (fun s => s < len)
    (fun s hs st' => visit_specS m stage hv.arena len s st' hs)
    m stage (QS_use m stage) e.fn st1 hA
  have kC := fn_ind (QC_rel (maxTicks m)) (recOf m stage len) (fun s => s < len)
    (fun s hs st' => visit_specC m stage hv.arena len s st' hs hs)
    m stage (QC_use (maxTicks m) stage) e.fn st1 hA
  rw [hstep]
  generalize e.fn.exprs.foldl (exprStep m stage (recOf m stage len))
    (walkList (recOf m stage len) e.fn.body st1) = res at kV kS kC ⊢
  obtain ⟨vm, _⟩ := kV
  obtain ⟨_, sS, sP⟩ := kS
  obtain ⟨c1, c2, c3, c4⟩ := kC
  have hnew : ∀ n, (∃ x, x ∈ res.visited ∧ x ∉ st1.visited ∧ UsesH m x n) ↔
      ∃ s ∈ callsOf (evFn m e.fn), ∃ x, Reach m s x ∧ UsesH m x n := by
    intro n
    constructor
    · rintro ⟨x, hx, _, hu⟩
      rcases (vm x).mp hx with h | ⟨s, hs, hr⟩
      · cases h
      · exact ⟨s, hs, x, hr, hu⟩
    · rintro ⟨s, hs, x, hr, hu⟩
      exact ⟨x, (vm x).mpr (Or.inr ⟨s, hs, hr⟩), by simp [st1], hu⟩
  refine ⟨fun n g => ?_, fun n => ?_, ?_, ?_⟩
  · rw [sS n g, hnew n, Stages.has_ofStage]; rfl
  · rw [sP n, hnew n]; rfl
  · -- every visited handle is a distinct arena index
    have hnd : res.visited.Nodup := c4 (by simp [st1])
    have hb : ∀ x ∈ res.visited, x < len := by
      intro x hx
      rcases (vm x).mp hx with h | ⟨s, hs, hr⟩
      · cases h
      · have := reach_le hv.arena hr
        have := hA s hs
        omega
    have := nodup_lt_length len res.visited hnd hb
    simp only [st1, List.length_nil] at c2
    omega
  · have hnd : res.visited.Nodup := c4 (by simp [st1])
    have hb : ∀ x ∈ res.visited, x < len := by
      intro x hx
      rcases (vm x).mp hx with h | ⟨s, hs, hr⟩
      · cases h
      · have := reach_le hv.arena hr
        have := hA s hs
        omega
    have hl := nodup_lt_length len res.visited hnd hb
    simp only [st1, List.length_nil] at c2 c3
    have e1 : res.fnVisits = st.fnVisits + 1 + res.visited.length := by omega
    rw [e1] at c3
    have : maxTicks m * (st.fnVisits + 1 + res.visited.length) =
        maxTicks m * (st.fnVisits + 1) + maxTicks m * res.visited.length := by
      rw [Nat.mul_add]
    have h2 : maxTicks m * res.visited.length ≤ maxTicks m * len := Nat.mul_le_mul_left _ hl
    show res.stmtVisits ≤ st.stmtVisits + ticksOf (evFn m e.fn) + maxTicks m * len
    omega

/-! ### all entry points -/

theorem entries_fold_spec (m : Module) (hv : CallsEarlier m) :
    ∀ (es : List EntryPoint), (∀ e ∈ es, e ∈ m.entries) → ∀ (st : StState),
    (∀ n g, ((es.foldl (entryStep m) st).stages.getD n).has g = true ↔
      ((st.stages.getD n).has g = true ∨ ∃ e ∈ es, e.stage = g ∧ EntryUses m e n)) ∧
    (∀ n, ((es.foldl (entryStep m) st).stages.get? n).isSome = true ↔
      ((st.stages.get? n).isSome = true ∨ ∃ e ∈ es, EntryUses m e n)) ∧
    (es.foldl (entryStep m) st).fnVisits ≤ st.fnVisits + es.length * (1 + m.functions.length) := by
  intro es
  induction es with
  | nil => intro _ st; simp
  | cons e es ih =>
    intro hsub st
    have he := hsub e (by simp)
    obtain ⟨s1, p1, f1, _⟩ := entryStep_spec m hv e he st
    obtain ⟨s2, p2, f2⟩ := ih (fun x hx => hsub x (by simp [hx])) (entryStep m st e)
    simp only [List.foldl_cons]
    refine ⟨fun n g => ?_, fun n => ?_, ?_⟩
    · rw [s2 n g, s1 n g]
      simp only [List.mem_cons]
      constructor
      · rintro ((h | h) | ⟨x, hx, h⟩)
        · exact Or.inl h
        · exact Or.inr ⟨e, Or.inl rfl, h⟩
        · exact Or.inr ⟨x, Or.inr hx, h⟩
      · rintro (h | ⟨x, (rfl | hx), h⟩)
        · exact Or.inl (Or.inl h)
        · exact Or.inl (Or.inr h)
        · exact Or.inr ⟨x, hx, h⟩
    · rw [p2 n, p1 n]
      simp only [List.mem_cons]
      constructor
      · rintro ((h | h) | ⟨x, hx, h⟩)
        · exact Or.inl h
        · exact Or.inr ⟨e, Or.inl rfl, h⟩
        · exact Or.inr ⟨x, Or.inr hx, h⟩
      · rintro (h | ⟨x, (rfl | hx), h⟩)
        · exact Or.inl (Or.inl h)
        · exact Or.inl (Or.inr h)
        · exact Or.inr ⟨x, hx, h⟩
    · simp only [List.length_cons]
      have : (es.length + 1) * (1 + m.functions.length) =
          es.length * (1 + m.functions.length) + (1 + m.functions.length) := by
        rw [Nat.add_mul, Nat.one_mul]
      omega

end WgslVerif
