import WgslVerif.Model.BindData
/-
Lemmas for C11: `upsert` maintains the representation invariant `RepFrom`.
(ported from notes/c11_upsert_feasibility_probe.lean.txt)
-/
namespace WgslVerif
namespace C11

/-! spec side -/
def lookup (gs : Groups) (g : Nat) : List GroupBinding :=
  match gs.find? (·.1 = g) with
  | some (_, bs) => bs
  | none => []

def Sorted : Groups → Prop
  | [] => True
  | [_] => True
  | (k1, _) :: (k2, b2) :: rest => k1 < k2 ∧ Sorted ((k2, b2) :: rest)

/-- representation invariant: `gs` represents the processed prefix `p` -/
structure Rep (gs : Groups) (p : List GroupBinding) : Prop where
  sorted : Sorted gs
  content : ∀ g, lookup gs g = p.filter (·.group = g)
  nonempty : ∀ k bs, (k, bs) ∈ gs → bs ≠ []

def Clash (p : List GroupBinding) (b : GroupBinding) : Prop := ∃ x ∈ p, x.group = b.group ∧ x.binding = b.binding


/-! ### proofs -/

theorem lookup_nil (g : Nat) : lookup [] g = [] := rfl

theorem lookup_cons (k : Nat) (bs : List GroupBinding) (rest : Groups) (g : Nat) :
    lookup ((k, bs) :: rest) g = if k = g then bs else lookup rest g := by
  unfold lookup
  simp only [List.find?_cons]
  by_cases h : k = g <;> simp [h]

theorem Sorted.tail {x : Nat × List GroupBinding} {gs : Groups} (h : Sorted (x :: gs)) : Sorted gs := by
  cases gs with
  | nil => trivial
  | cons y ys => exact h.2

/-- in a sorted map every key after the head is larger than the head -/
theorem Sorted.head_lt {k : Nat} {bs : List GroupBinding} {gs : Groups} (h : Sorted ((k, bs) :: gs)) :
    ∀ k' bs', (k', bs') ∈ gs → k < k' := by
  induction gs generalizing k bs with
  | nil => intro _ _ hm; cases hm
  | cons y ys ih =>
    obtain ⟨k2, b2⟩ := y
    intro k' bs' hm
    rcases List.mem_cons.mp hm with e | hm
    · cases e; exact h.1
    · exact Nat.lt_trans h.1 (ih h.2 k' bs' hm)

theorem lookup_of_lt {k : Nat} {bs : List GroupBinding} {gs : Groups} (h : Sorted ((k, bs) :: gs)) {g : Nat}
    (hg : g ≤ k) : lookup gs g = [] := by
  unfold lookup
  have : gs.find? (fun x => decide (x.1 = g)) = none := by
    apply List.find?_eq_none.mpr
    intro x hx
    obtain ⟨k', bs'⟩ := x
    have := h.head_lt k' bs' hx
    simp; omega
  simp [this]

def Clashes (p : List GroupBinding) (b : GroupBinding) : Bool := p.any (fun x => x.group = b.group ∧ x.binding = b.binding)

theorem any_filter_binding (p : List GroupBinding) (b : GroupBinding) :
    (p.filter (·.group = b.group)).any (fun x => x.binding = b.binding) = Clashes p b := by
  unfold Clashes
  induction p with
  | nil => rfl
  | cons x xs ih =>
    simp only [List.filter_cons, List.any_cons]
    by_cases hx : x.group = b.group
    · simp [hx, ih]
    · simp [hx, ih]


/-- `gs` represents, for every group `≥ lo`, the bindings of prefix `p` in declaration order -/
structure RepFrom (lo : Nat) (gs : Groups) (p : List GroupBinding) : Prop where
  sorted : Sorted gs
  lower : ∀ k bs, (k, bs) ∈ gs → lo ≤ k
  content : ∀ g, lo ≤ g → lookup gs g = p.filter (·.group = g)

theorem filter_append_single (p : List GroupBinding) (b : GroupBinding) (g : Nat) :
    (p ++ [b]).filter (·.group = g) = p.filter (·.group = g) ++ (if b.group = g then [b] else []) := by
  simp only [List.filter_append, List.filter_cons, List.filter_nil]
  by_cases h : b.group = g <;> simp [h]

theorem clashes_false_of_filter_nil {p : List GroupBinding} {b : GroupBinding} (h : p.filter (·.group = b.group) = []) :
    Clashes p b = false := by
  rw [← any_filter_binding, h]; rfl

theorem upsert_spec (b : GroupBinding) : ∀ (gs : Groups) (lo : Nat) (p : List GroupBinding), RepFrom lo gs p → lo ≤ b.group →
    (Clashes p b = true → upsert b gs = .error (.duplicateBinding b.binding)) ∧
    (Clashes p b = false → ∃ gs', upsert b gs = .ok gs' ∧ RepFrom lo gs' (p ++ [b]) ∧
        (∀ k, (∃ bs, (k, bs) ∈ gs') ↔ (k = b.group ∨ ∃ bs, (k, bs) ∈ gs))) := by
  intro gs
  induction gs with
  | nil =>
    intro lo p hr hlo
    have hnil : p.filter (·.group = b.group) = [] := by rw [← hr.content _ hlo]; rfl
    have hc := clashes_false_of_filter_nil hnil
    refine ⟨fun h => (by rw [hc] at h; cases h), fun _ => ⟨[(b.group, [b])], rfl, ⟨trivial, ?_, ?_⟩, ?_⟩⟩
    · intro k bs hm; simp at hm; omega
    · intro g hg
      rw [filter_append_single, ← hr.content g hg, lookup_cons, lookup_nil]
      by_cases h : b.group = g <;> simp [h]
    · intro k; simp
  | cons x rest ih =>
    obtain ⟨k, bs⟩ := x
    intro lo p hr hlo
    have hk : lookup ((k, bs) :: rest) b.group = p.filter (·.group = b.group) := hr.content _ hlo
    unfold upsert
    by_cases h1 : b.group < k
    · -- new smallest-so-far key
      have hnil : p.filter (·.group = b.group) = [] := by
        rw [← hk, lookup_cons, if_neg (by omega), lookup_of_lt hr.sorted (by omega)]
      have hc := clashes_false_of_filter_nil hnil
      refine ⟨fun h => (by rw [hc] at h; cases h), fun _ => ⟨(b.group, [b]) :: (k, bs) :: rest, by simp [h1], ⟨(show b.group < k ∧ Sorted ((k, bs) :: rest) from ⟨h1, hr.sorted⟩), ?_, ?_⟩, ?_⟩⟩
      · intro k' bs' hm
        rcases List.mem_cons.mp hm with e | hm
        · cases e; exact hlo
        · exact hr.lower _ _ hm
      · intro g hg
        rw [filter_append_single, ← hr.content g hg, lookup_cons (b.group)]
        by_cases h : b.group = g
        · subst h
          have : lookup ((k, bs) :: rest) b.group = [] := by rw [hk, hnil]
          simp [this]
        · simp [h]
      · intro k'; simp only [List.mem_cons, Prod.mk.injEq]
        constructor
        · rintro ⟨bs', (⟨rfl, _⟩ | h)⟩
          · exact Or.inl rfl
          · exact Or.inr ⟨bs', h⟩
        · rintro (rfl | ⟨bs', h⟩)
          · exact ⟨[b], Or.inl ⟨rfl, rfl⟩⟩
          · exact ⟨bs', Or.inr h⟩
    · by_cases h2 : b.group = k
      · -- existing group: duplicate scan then push
        have hbs : bs = p.filter (·.group = b.group) := by rw [← hk, lookup_cons, if_pos h2.symm]
        have hany : bs.any (fun x => x.binding = b.binding) = Clashes p b := by
          rw [hbs]; exact any_filter_binding p b
        simp only [h1, if_false, if_pos h2]
        refine ⟨fun h => by simp [← h2, hany, h], fun h => ⟨(k, bs ++ [b]) :: rest, by simp [← h2, hany, h], ⟨?_, ?_, ?_⟩, ?_⟩⟩
        · cases rest with
          | nil => trivial
          | cons y ys => exact hr.sorted
        · intro k' bs' hm
          rcases List.mem_cons.mp hm with e | hm
          · cases e; exact hr.lower k bs (by simp)
          · exact hr.lower _ _ (List.mem_cons_of_mem _ hm)
        · intro g hg
          rw [filter_append_single, ← hr.content g hg, lookup_cons, lookup_cons]
          by_cases h : k = g
          · subst h; simp [h2]
          · have : ¬ b.group = g := by omega
            simp [h, this]
        · intro k'; simp only [List.mem_cons, Prod.mk.injEq]
          constructor
          · rintro ⟨bs', (⟨rfl, _⟩ | h)⟩
            · exact Or.inl h2.symm
            · exact Or.inr ⟨bs', Or.inr h⟩
          · rintro (rfl | ⟨bs', (⟨rfl, rfl⟩ | h)⟩)
            · exact ⟨bs ++ [b], Or.inl ⟨h2, rfl⟩⟩
            · exact ⟨bs' ++ [b], Or.inl ⟨rfl, rfl⟩⟩
            · exact ⟨bs', Or.inr h⟩
      · -- larger key: recurse into the tail
        have hgt : k < b.group := by omega
        have hrest : RepFrom (k + 1) rest p := by
          refine ⟨hr.sorted.tail, ?_, ?_⟩
          · intro k' bs' hm; exact hr.sorted.head_lt k' bs' hm
          · intro g hg
            have := hr.content g (by have := hr.lower k bs (by simp); omega)
            rw [lookup_cons, if_neg (by omega)] at this
            exact this
        obtain ⟨ihe, iho⟩ := ih (k + 1) p hrest hgt
        simp only [h1, if_false, h2]
        refine ⟨fun h => by rw [ihe h], fun h => ?_⟩
        obtain ⟨r, hr1, hr2, hr3⟩ := iho h
        refine ⟨(k, bs) :: r, by rw [hr1], ⟨?_, ?_, ?_⟩, ?_⟩
        · cases r with
          | nil => trivial
          | cons y ys =>
            obtain ⟨k2, b2⟩ := y
            exact ⟨by have := hr2.lower k2 b2 (by simp); omega, hr2.sorted⟩
        · intro k' bs' hm
          rcases List.mem_cons.mp hm with e | hm
          · cases e; exact hr.lower k bs (by simp)
          · have := hr2.lower _ _ hm; have := hr.lower k bs (by simp); omega
        · intro g hg
          rw [lookup_cons]
          by_cases h : k = g
          · subst h
            rw [if_pos rfl, filter_append_single, if_neg (by omega), List.append_nil]
            have := hr.content k hg
            rw [lookup_cons, if_pos rfl] at this
            exact this
          · rw [if_neg h]
            by_cases hgk : g ≤ k
            · -- below k: tail has nothing, and nothing new arrives
              have e1 : lookup r g = [] := by
                unfold lookup
                have : r.find? (fun x => decide (x.1 = g)) = none := by
                  apply List.find?_eq_none.mpr
                  intro x hx; obtain ⟨k', bs'⟩ := x
                  have := hr2.lower k' bs' hx; simp; omega
                simp [this]
              have e2 := hr.content g hg
              rw [lookup_cons, if_neg h, lookup_of_lt hr.sorted hgk] at e2
              rw [e1, filter_append_single, ← e2, if_neg (by omega)]; rfl
            · exact hr2.content g (by omega)
        · intro k'; simp only [List.mem_cons, Prod.mk.injEq]
          constructor
          · rintro ⟨bs', (⟨rfl, _⟩ | h)⟩
            · exact Or.inr ⟨bs, Or.inl ⟨rfl, rfl⟩⟩
            · rcases (hr3 k').mp ⟨bs', h⟩ with e | ⟨b2, h⟩
              · exact Or.inl e
              · exact Or.inr ⟨b2, Or.inr h⟩
          · rintro (e | ⟨bs', (⟨rfl, rfl⟩ | h)⟩)
            · obtain ⟨b2, h⟩ := (hr3 k').mpr (Or.inl e); exact ⟨b2, Or.inr h⟩
            · exact ⟨bs', Or.inl ⟨rfl, rfl⟩⟩
            · obtain ⟨b2, h⟩ := (hr3 k').mpr (Or.inr ⟨bs', h⟩); exact ⟨b2, Or.inr h⟩



end C11
end WgslVerif
