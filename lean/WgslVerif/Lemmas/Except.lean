/-
Plumbing: `List.mapM` / `List.filterMapM` in the `Except` monad.
-/
namespace WgslVerif

theorem mapM_ok_cons {α β ε : Type} {f : α → Except ε β} {a : α} {l : List α} {r : List β}
    (h : (a :: l).mapM f = .ok r) : ∃ b bs, f a = .ok b ∧ l.mapM f = .ok bs ∧ r = b :: bs := by
  rw [List.mapM_cons] at h
  cases hf : f a with
  | error e => rw [hf] at h; cases h
  | ok b =>
    rw [hf] at h
    cases hl : l.mapM f with
    | error e => rw [hl] at h; cases h
    | ok bs =>
      rw [hl] at h
      injection h with h
      exact ⟨b, bs, rfl, rfl, h.symm⟩

/-- a successful `mapM` is a `map` of the per-element results -/
theorem mapM_ok_spec {α β ε : Type} {f : α → Except ε β} :
    ∀ {l : List α} {r : List β}, l.mapM f = .ok r →
      r.length = l.length ∧ ∀ i (hi : i < l.length) (hr : i < r.length), f l[i] = .ok r[i] := by
  intro l
  induction l with
  | nil =>
    intro r h
    rw [List.mapM_nil] at h
    injection h with h; subst h
    exact ⟨rfl, fun i hi => by simp at hi⟩
  | cons a l ih =>
    intro r h
    obtain ⟨b, bs, hb, hbs, e⟩ := mapM_ok_cons h
    subst e
    obtain ⟨hl, hidx⟩ := ih hbs
    refine ⟨by simp [hl], fun i hi hr => ?_⟩
    cases i with
    | zero => simpa using hb
    | succ i =>
      simp only [List.getElem_cons_succ]
      exact hidx i (by simpa using hi) (by simpa using hr)

theorem mapM_ok_mem {α β ε : Type} {f : α → Except ε β} {l : List α} {r : List β}
    (h : l.mapM f = .ok r) : ∀ b ∈ r, ∃ a ∈ l, f a = .ok b := by
  obtain ⟨hl, hidx⟩ := mapM_ok_spec h
  intro b hb
  obtain ⟨i, hi, e⟩ := List.getElem_of_mem hb
  have hi' : i < l.length := by omega
  exact ⟨l[i], List.getElem_mem hi', e ▸ hidx i hi' hi⟩

theorem mapM_ok_mem' {α β ε : Type} {f : α → Except ε β} {l : List α} {r : List β}
    (h : l.mapM f = .ok r) : ∀ a ∈ l, ∃ b ∈ r, f a = .ok b := by
  obtain ⟨hl, hidx⟩ := mapM_ok_spec h
  intro a ha
  obtain ⟨i, hi, e⟩ := List.getElem_of_mem ha
  have hi' : i < r.length := by omega
  exact ⟨r[i], List.getElem_mem hi', e ▸ hidx i hi hi'⟩

/-- if every successful element result is `g a`, a successful `mapM` equals `map g` -/
theorem mapM_ok_eq_map {α β ε : Type} {f : α → Except ε β} {g : α → β} :
    ∀ {l : List α} {r : List β}, l.mapM f = .ok r → (∀ a ∈ l, ∀ b, f a = .ok b → b = g a) →
      r = l.map g := by
  intro l
  induction l with
  | nil => intro r h _; rw [List.mapM_nil] at h; injection h with h; exact h.symm
  | cons a l ih =>
    intro r h hg
    obtain ⟨b, bs, hb, hbs, e⟩ := mapM_ok_cons h
    subst e
    rw [List.map_cons, hg a (by simp) b hb, ih hbs (fun x hx => hg x (by simp [hx]))]

theorem filterMapM_ok_cons {α β ε : Type} {f : α → Except ε (Option β)} {a : α} {l : List α}
    {r : List β} (h : (a :: l).filterMapM f = .ok r) :
    ∃ ob bs, f a = .ok ob ∧ l.filterMapM f = .ok bs ∧ r = ob.toList ++ bs := by
  rw [List.filterMapM_cons] at h
  cases hf : f a with
  | error e => rw [hf] at h; cases h
  | ok ob =>
    rw [hf] at h
    cases ob with
    | none => exact ⟨none, r, rfl, h, rfl⟩
    | some b =>
      cases hl : l.filterMapM f with
      | error e => simp [hl] at h; cases h
      | ok bs =>
        simp [hl] at h
        have : r = b :: bs := by
          cases h; rfl
        exact ⟨some b, bs, rfl, rfl, by simpa using this⟩

/-- a successful `filterMapM` whose element function is `pure ∘ g` on success is `filterMap g` -/
theorem filterMapM_ok_eq_filterMap {α β ε : Type} {f : α → Except ε (Option β)} {g : α → Option β} :
    ∀ {l : List α} {r : List β}, l.filterMapM f = .ok r →
      (∀ a ∈ l, ∀ ob, f a = .ok ob → ob = g a) → r = l.filterMap g := by
  intro l
  induction l with
  | nil => intro r h _; rw [List.filterMapM_nil] at h; injection h with h; exact h.symm
  | cons a l ih =>
    intro r h hg
    obtain ⟨ob, bs, hb, hbs, e⟩ := filterMapM_ok_cons h
    subst e
    have := hg a (by simp) ob hb
    rw [List.filterMap_cons, ← this, ih hbs (fun x hx => hg x (by simp [hx]))]
    cases ob <;> rfl

theorem filterMapM_ok_mem {α β ε : Type} {f : α → Except ε (Option β)} :
    ∀ {l : List α} {r : List β}, l.filterMapM f = .ok r → ∀ b ∈ r, ∃ a ∈ l, f a = .ok (some b) := by
  intro l
  induction l with
  | nil => intro r h b hb; rw [List.filterMapM_nil] at h; injection h with h; subst h; cases hb
  | cons a l ih =>
    intro r h b hb
    obtain ⟨ob, bs, hfa, hbs, e⟩ := filterMapM_ok_cons h
    subst e
    rcases List.mem_append.mp hb with h1 | h1
    · cases ob with
      | none => cases h1
      | some x =>
        simp at h1; subst h1
        exact ⟨a, by simp, hfa⟩
    · obtain ⟨a', ha', hf'⟩ := ih hbs b h1
      exact ⟨a', by simp [ha'], hf'⟩

end WgslVerif

namespace WgslVerif
/-- projecting a successful `filterMapM` -/
theorem filterMapM_ok_map {α β γ ε : Type} {f : α → Except ε (Option β)} {p : β → γ} {g : α → Option γ} :
    ∀ {l : List α} {r : List β}, l.filterMapM f = .ok r →
      (∀ a ∈ l, ∀ ob, f a = .ok ob → ob.map p = g a) → r.map p = l.filterMap g := by
  intro l
  induction l with
  | nil => intro r h _; rw [List.filterMapM_nil] at h; injection h with h; subst h; rfl
  | cons a l ih =>
    intro r h hg
    obtain ⟨ob, bs, hb, hbs, e⟩ := filterMapM_ok_cons h
    subst e
    have := hg a (by simp) ob hb
    rw [List.filterMap_cons, ← this, List.map_append, ih hbs (fun x hx => hg x (by simp [hx]))]
    cases ob <;> rfl
end WgslVerif

namespace WgslVerif
/-- projecting a successful `mapM` -/
theorem mapM_ok_map_eq {α β γ ε : Type} {f : α → Except ε β} {p : β → γ} {q : α → γ} :
    ∀ {l : List α} {r : List β}, l.mapM f = .ok r → (∀ a ∈ l, ∀ b, f a = .ok b → p b = q a) →
      r.map p = l.map q := by
  intro l
  induction l with
  | nil => intro r h _; rw [List.mapM_nil] at h; injection h with h; subst h; rfl
  | cons a l ih =>
    intro r h hq
    obtain ⟨b, bs, hb, hbs, e⟩ := mapM_ok_cons h
    subst e
    rw [List.map_cons, List.map_cons, hq a (by simp) b hb, ih hbs (fun x hx => hq x (by simp [hx]))]
end WgslVerif

namespace WgslVerif
theorem filterMapM_ok_length {α β ε : Type} {f : α → Except ε (Option β)} {p : α → Bool} :
    ∀ {l : List α} {r : List β}, l.filterMapM f = .ok r →
      (∀ a ∈ l, ∀ ob, f a = .ok ob → ob.isSome = p a) → r.length = (l.filter p).length := by
  intro l
  induction l with
  | nil => intro r h _; rw [List.filterMapM_nil] at h; injection h with h; subst h; rfl
  | cons a l ih =>
    intro r h hp
    obtain ⟨ob, bs, hb, hbs, e⟩ := filterMapM_ok_cons h
    subst e
    have := hp a (by simp) ob hb
    rw [List.length_append, ih hbs (fun x hx => hp x (by simp [hx])), List.filter_cons]
    cases ob with
    | none => simp at this; simp [this]
    | some b => simp at this; simp [this]; omega
end WgslVerif
