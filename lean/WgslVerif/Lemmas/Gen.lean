import WgslVerif.Model.Top
import WgslVerif.Lemmas.Structs
/-
Decomposition of a successful `gen` call into its parts (used by every property theorem).
-/
namespace WgslVerif

structure GenParts (m : Module) (o : Options) (src : String) (path : Option String) (out : Out) : Prop where
  data : ∃ data, getBindGroupData m = .ok data ∧ out.pipelineGroups = data.map (·.1) ∧
    bindGroupsModule m data (globalShaderStages m) = .ok (out.groups, out.bindModule)
  structs : structs m o = .ok out.structs
  consts : out.consts = consts m
  vertex : vertexStructMethods m = .ok out.vertex
  vertexEntries : vertexEntries m = .ok out.vertexEntries
  fragmentEntries : out.fragmentEntries = fragmentEntries m
  entryConsts : out.entryConsts = entryPointConstants m
  compute : out.compute = computeModule m
  overrides : pipelineOverridableConstants m = .ok out.overrides
  push : ∃ push, pushConstantRangeStages m (globalShaderStages m) = .ok push ∧
    out.pushStages = push.map (fun p => ("PUSH_CONSTANT_STAGES", p.2)) ∧
    out.pushRanges = pushRangesOf push
  source : out.source = sourceOf src path
  boiler : out.boiler = entryBoiler m ++ [("fn:create_shader_module", createShaderModuleText)]
  unknown : out.unknown = []
  keywords : ¬ (o.rustfmt = false ∧ (emittedIdents out).any (fun n => rustKeywords.contains n) = true)

theorem gen_ok {m : Module} {o : Options} {src : String} {path : Option String} {out : Out}
    (hg : gen m o src path = .ok out) : GenParts m o src path out := by
  unfold gen at hg
  obtain ⟨data, hdata, hg⟩ := Except.bind_ok hg
  simp only at hg
  obtain ⟨ss, hss, hg⟩ := Except.bind_ok hg
  obtain ⟨gb, hgb, hg⟩ := Except.bind_ok hg
  obtain ⟨groups, bm⟩ := gb
  simp only at hg
  obtain ⟨vertex, hvx, hg⟩ := Except.bind_ok hg
  obtain ⟨ves, hves, hg⟩ := Except.bind_ok hg
  obtain ⟨push, hpush, hg⟩ := Except.bind_ok hg
  obtain ⟨ovs, hovs, hg⟩ := Except.bind_ok hg
  unfold finish at hg
  split at hg
  · cases hg
  · rename_i hk
    injection hg with hg
    subst hg
    refine ⟨⟨data, hdata, rfl, hgb⟩, hss, rfl, hvx, hves, rfl, rfl, rfl, hovs, ⟨push, hpush, rfl, rfl⟩, rfl, rfl, rfl, ?_⟩
    intro ⟨h1, h2⟩
    apply hk
    rw [h1, h2]; rfl

end WgslVerif
