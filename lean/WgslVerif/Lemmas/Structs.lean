import WgslVerif.Model.Structs
import WgslVerif.Lemmas.Except
/-
Shape of a successful `rustStruct` / `structs` call.
-/
namespace WgslVerif

theorem Except.bind_ok {ε α β : Type} {x : Except ε α} {f : α → Except ε β} {b : β}
    (h : (x >>= f) = .ok b) : ∃ a, x = .ok a ∧ f a = .ok b := by
  cases x with
  | error e => cases h
  | ok a => exact ⟨a, rfl, h⟩

/-- what a successful `rustStruct` returns -/
theorem rustStruct_ok {m : Module} {o : Options} {gvt : List Nat} {h : Nat} {t : Ty}
    {all : List Member} {s : RStruct} (hs : rustStruct m o gvt h t all = .ok s) :
    let members := all.filter fun mem => !isBuiltinMember mem
    let hasRts := structHasRtsArrayMember m members
    let isHS := gvt.contains h
    ∃ name fields offs,
      t.name = some name ∧
      structMembers m o members = .ok fields ∧
      members.mapM (fun mem => do
        let n ← unwrapName "member-name" mem.name
        pure (RAssert.offset name n mem.offset ("offset of " ++ name ++ "." ++ n ++ " does not match WGSL")))
        = .ok offs ∧
      ¬ (hasRts = true ∧ o.encase = false) ∧
      ¬ (o.bmVertex = true ∧ isHS = false ∧ hasRts = true) ∧
      ¬ (o.bmHost = true ∧ isHS = true ∧ hasRts = true) ∧
      s = { name := name, reprC := !hasRts, derives := deriveList o hasRts isHS, fields := fields,
            asserts := if o.bmHost && isHS then
              RAssert.size name t.laySize ("size of " ++ name ++ " does not match WGSL") :: offs else [] } := by
  intro members hasRts isHS
  unfold rustStruct at hs
  obtain ⟨name, hn, hs⟩ := Except.bind_ok hs
  obtain ⟨offs, ho, hs⟩ := Except.bind_ok hs
  obtain ⟨fields, hf, hs⟩ := Except.bind_ok hs
  have hname : t.name = some name := by
    cases ht : t.name with
    | none => rw [ht] at hn; cases hn
    | some n => rw [ht] at hn; injection hn with hn; rw [hn]
  refine ⟨name, fields, offs, hname, hf, ho, ?_⟩
  simp only at hs
  split at hs
  · cases hs
  · split at hs
    · cases hs
    · split at hs
      · cases hs
      · rename_i h1 h2 h3
        injection hs with hs
        refine ⟨?_, ?_, ?_, hs.symm⟩
        · intro ⟨a, b⟩; apply h1; simp [hasRts, members] at a; simp [a, b]
        · intro ⟨a, b, c⟩; apply h2; simp [hasRts, members, isHS] at b c; simp [a, b, c]
        · intro ⟨a, b, c⟩; apply h3; simp [hasRts, members, isHS] at b c; simp [a, b, c]

end WgslVerif

namespace WgslVerif

/-- the element function of `structs` -/
def structOf (m : Module) (o : Options) (gvt : List Nat) (ht : Nat × Ty) : G (Option RStruct) :=
  match ht.2.inner with
  | .struct members _ => do
    let s ← rustStruct m o gvt ht.1 ht.2 members
    pure (some s)
  | _ => pure none

theorem structs_def (m : Module) (o : Options) :
    structs m o = ((indexed m.types).filter fun ht => structWanted m (globalVariableTypes m) ht.1).filterMapM
      (structOf m o (globalVariableTypes m)) := rfl

/-- name of an arena entry when it is a struct type -/
def structNameOf (ht : Nat × Ty) : Option String :=
  match ht.2.inner with
  | .struct _ _ => ht.2.name
  | _ => none

theorem structOf_name {m : Module} {o : Options} {gvt : List Nat} {ht : Nat × Ty} {ob : Option RStruct}
    (h : structOf m o gvt ht = .ok ob) : ob.map (·.name) = structNameOf ht := by
  unfold structOf at h
  unfold structNameOf
  split at h
  · rename_i members span hi
    obtain ⟨s, hs, h⟩ := Except.bind_ok h
    injection h with h; subst h
    obtain ⟨name, _, _, hn, _, _, _, _, _, e⟩ := rustStruct_ok hs
    simp [e, hn]
  · rename_i hne
    injection h with h; subst h
    rfl

/-- every emitted struct comes from a wanted struct type through `rustStruct` -/
theorem structs_mem {m : Module} {o : Options} {ss : List RStruct} (h : structs m o = .ok ss)
    {s : RStruct} (hs : s ∈ ss) :
    ∃ hd ty members span, (hd, ty) ∈ indexed m.types ∧ structWanted m (globalVariableTypes m) hd = true ∧
      ty.inner = .struct members span ∧ rustStruct m o (globalVariableTypes m) hd ty members = .ok s := by
  rw [structs_def] at h
  obtain ⟨ht, hmem, hf⟩ := filterMapM_ok_mem h s hs
  obtain ⟨hin, hw⟩ := List.mem_filter.mp hmem
  unfold structOf at hf
  split at hf
  · rename_i members span hi
    obtain ⟨s', hs', hf⟩ := Except.bind_ok hf
    injection hf with hf; injection hf with hf; subst hf
    exact ⟨ht.1, ht.2, members, span, hin, hw, hi, hs'⟩
  · injection hf with hf; cases hf

theorem mem_indexed {α : Type} {l : List α} {i : Nat} {a : α} :
    (i, a) ∈ indexed l ↔ l[i]? = some a := by
  unfold indexed
  constructor
  · intro h
    obtain ⟨k, hk, e⟩ := List.getElem_of_mem h
    simp only [List.getElem_zip, List.getElem_range, Prod.mk.injEq] at e
    obtain ⟨rfl, rfl⟩ := e
    simp at hk
    simp [hk]
  · intro h
    obtain ⟨hi, e⟩ := List.getElem?_eq_some_iff.mp h
    have : (i, a) = (indexed l)[i]'(by simp [indexed, hi]) := by
      simp [indexed, e]
    rw [this]
    exact List.getElem_mem _

end WgslVerif
