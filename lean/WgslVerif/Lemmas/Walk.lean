import WgslVerif.Model.Stages
/-
Skeleton lemma for the stage traversal: the walker over the nested statement type, followed by
the expression loop, is a left fold of primitive steps over a flat *event list*
(`tick` = a statement visited, `call h` = `visited.insert(h)` + recursion, `use n` = the stage
added to variable `n`).  Any relation between pre- and post-state that is reflexive,
composes along `++`, and holds for the three primitive steps therefore holds for the whole
function body (`fn_ind`).
-/
namespace WgslVerif

inductive Ev
  | tick
  | call (h : Nat)
  | use (n : String)
  deriving DecidableEq, Repr

mutual
/-- events of one statement, in the order `update_stages_blocks` performs them -/
def evStmt : Stmt → List Ev
  | .call f _ => [.tick, .call f]
  | .block b => .tick :: evList b
  | .ifs a r => .tick :: (evList a ++ evList r)
  | .switch cs => .tick :: evCases cs
  | .loop b c => .tick :: (evList b ++ evList c)
  | .other _ => [.tick]
def evList : List Stmt → List Ev
  | [] => []
  | s :: ss => evStmt s ++ evList ss
def evCases : List (List Stmt) → List Ev
  | [] => []
  | c :: cs => evList c ++ evCases cs
end

/-- events of the expression loop of `update_stages` -/
def evExprs (m : Module) : List Expr → List Ev
  | [] => []
  | .global g :: es =>
    match (m.globals[g]?).bind (·.name) with
    | some n => .use n :: evExprs m es
    | none => evExprs m es
  | .callResult f :: es => .call f :: evExprs m es
  | .other :: es => evExprs m es

/-- all events of one `update_stages` invocation (after its own visit tick) -/
def evFn (m : Module) (f : Fn) : List Ev := evList f.body ++ evExprs m f.exprs

/-- function handles a function may recurse into, in visiting order -/
def callsOf (evs : List Ev) : List Nat :=
  evs.filterMap fun | .call h => some h | _ => none

def usesOf (evs : List Ev) : List String :=
  evs.filterMap fun | .use n => some n | _ => none

def ticksOf (evs : List Ev) : Nat := (evs.filter (· == .tick)).length

theorem callsOf_append (a b : List Ev) : callsOf (a ++ b) = callsOf a ++ callsOf b := by
  simp [callsOf, List.filterMap_append]
theorem usesOf_append (a b : List Ev) : usesOf (a ++ b) = usesOf a ++ usesOf b := by
  simp [usesOf, List.filterMap_append]
theorem ticksOf_append (a b : List Ev) : ticksOf (a ++ b) = ticksOf a + ticksOf b := by
  simp [ticksOf, List.filter_append]

theorem mem_callsOf {evs : List Ev} {h : Nat} : h ∈ callsOf evs ↔ Ev.call h ∈ evs := by
  simp only [callsOf, List.mem_filterMap]
  constructor
  · rintro ⟨e, he, hh⟩
    cases e <;> simp at hh
    subst hh; exact he
  · intro he; exact ⟨_, he, rfl⟩

theorem mem_usesOf {evs : List Ev} {n : String} : n ∈ usesOf evs ↔ Ev.use n ∈ evs := by
  simp only [usesOf, List.mem_filterMap]
  constructor
  · rintro ⟨e, he, hh⟩
    cases e <;> simp at hh
    subst hh; exact he
  · intro he; exact ⟨_, he, rfl⟩

/-- A relation indexed by event lists that the traversal preserves. -/
structure WalkRel (Q : List Ev → StState → StState → Prop) : Prop where
  refl : ∀ st, Q [] st st
  comp : ∀ {l1 l2 a b c}, Q l1 a b → Q l2 b c → Q (l1 ++ l2) a c
  tick : ∀ st, Q [.tick] st st.tickStmt

section
variable {Q : List Ev → StState → StState → Prop} (hQ : WalkRel Q)
variable (rec : Nat → StState → StState) (A : Nat → Prop)
variable (hcall : ∀ h, A h → ∀ st, Q [.call h] st (visitCall rec h st))
include hQ hcall

mutual
theorem walkStmt_ind : ∀ (s : Stmt) (st : StState), (∀ h ∈ callsOf (evStmt s), A h) →
    Q (evStmt s) st (walkStmt rec s st)
  | .call f r, st, hA => by
      simp only [evStmt, walkStmt]
      exact hQ.comp (hQ.tick st) (hcall f (hA f (by simp [callsOf, evStmt])) _)
  | .block b, st, hA => by
      simp only [evStmt, walkStmt]
      exact hQ.comp (l1 := [.tick]) (hQ.tick st)
        (walkList_ind b _ (fun h hh => hA h (by simpa [evStmt, callsOf] using hh)))
  | .ifs a r, st, hA => by
      simp only [evStmt, walkStmt]
      have h1 := walkList_ind a st.tickStmt
        (fun h hh => hA h (by
          simp only [evStmt, callsOf, List.filterMap_cons, List.filterMap_append, List.mem_append]
          exact Or.inl hh))
      have h2 := walkList_ind r (walkList rec a st.tickStmt)
        (fun h hh => hA h (by
          simp only [evStmt, callsOf, List.filterMap_cons, List.filterMap_append, List.mem_append]
          exact Or.inr hh))
      exact hQ.comp (l1 := [.tick]) (hQ.tick st) (hQ.comp h1 h2)
  | .switch cs, st, hA => by
      simp only [evStmt, walkStmt]
      exact hQ.comp (l1 := [.tick]) (hQ.tick st)
        (walkCases_ind cs _ (fun h hh => hA h (by simpa [evStmt, callsOf] using hh)))
  | .loop b c, st, hA => by
      simp only [evStmt, walkStmt]
      have h1 := walkList_ind b st.tickStmt
        (fun h hh => hA h (by
          simp only [evStmt, callsOf, List.filterMap_cons, List.filterMap_append, List.mem_append]
          exact Or.inl hh))
      have h2 := walkList_ind c (walkList rec b st.tickStmt)
        (fun h hh => hA h (by
          simp only [evStmt, callsOf, List.filterMap_cons, List.filterMap_append, List.mem_append]
          exact Or.inr hh))
      exact hQ.comp (l1 := [.tick]) (hQ.tick st) (hQ.comp h1 h2)
  | .other t, st, _ => by
      simp only [evStmt, walkStmt]
      exact hQ.tick st
theorem walkList_ind : ∀ (l : List Stmt) (st : StState), (∀ h ∈ callsOf (evList l), A h) →
    Q (evList l) st (walkList rec l st)
  | [], st, _ => by simp only [evList, walkList]; exact hQ.refl st
  | s :: ss, st, hA => by
      simp only [evList, walkList]
      have h1 := walkStmt_ind s st (fun h hh => hA h (by
        simp only [evList, callsOf_append, List.mem_append]; exact Or.inl hh))
      have h2 := walkList_ind ss (walkStmt rec s st) (fun h hh => hA h (by
        simp only [evList, callsOf_append, List.mem_append]; exact Or.inr hh))
      exact hQ.comp h1 h2
theorem walkCases_ind : ∀ (cs : List (List Stmt)) (st : StState), (∀ h ∈ callsOf (evCases cs), A h) →
    Q (evCases cs) st (walkCases rec cs st)
  | [], st, _ => by simp only [evCases, walkCases]; exact hQ.refl st
  | c :: cs, st, hA => by
      simp only [evCases, walkCases]
      have h1 := walkList_ind c st (fun h hh => hA h (by
        simp only [evCases, callsOf_append, List.mem_append]; exact Or.inl hh))
      have h2 := walkCases_ind cs (walkList rec c st) (fun h hh => hA h (by
        simp only [evCases, callsOf_append, List.mem_append]; exact Or.inr hh))
      exact hQ.comp h1 h2
end

/-- the expression loop -/
theorem exprs_ind (m : Module) (stage : Stages)
    (huse : ∀ n st, Q [.use n] st { st with stages := st.stages.add n stage }) :
    ∀ (es : List Expr) (st : StState), (∀ h ∈ callsOf (evExprs m es), A h) →
      Q (evExprs m es) st (es.foldl (exprStep m stage rec) st)
  | [], st, _ => by simp only [evExprs, List.foldl_nil]; exact hQ.refl st
  | e :: es, st, hA => by
      simp only [List.foldl_cons]
      cases e with
      | global g =>
        simp only [evExprs, exprStep]
        cases hn : (m.globals[g]?).bind (·.name) with
        | none =>
          simp only
          exact exprs_ind m stage huse es st (fun h hh => hA h (by simpa [evExprs, hn] using hh))
        | some n =>
          simp only
          have h2 := exprs_ind m stage huse es { st with stages := st.stages.add n stage }
            (fun h hh => hA h (by simpa [evExprs, hn, callsOf] using hh))
          exact hQ.comp (l1 := [.use n]) (huse n st) h2
      | callResult f =>
        simp only [evExprs, exprStep]
        have h1 := hcall f (hA f (by simp [evExprs, callsOf])) st
        have h2 := exprs_ind m stage huse es (visitCall rec f st)
          (fun h hh => hA h (by
            simp only [evExprs, callsOf, List.filterMap_cons, List.mem_cons]
            exact Or.inr hh))
        exact hQ.comp (l1 := [.call f]) h1 h2
      | other =>
        simp only [evExprs, exprStep]
        exact exprs_ind m stage huse es st (fun h hh => hA h (by simpa [evExprs] using hh))

/-- body + expression loop of one `update_stages` invocation (after its own visit tick) -/
theorem fn_ind (m : Module) (stage : Stages)
    (huse : ∀ n st, Q [.use n] st { st with stages := st.stages.add n stage })
    (f : Fn) (st : StState) (hA : ∀ h ∈ callsOf (evFn m f), A h) :
    Q (evFn m f) st (f.exprs.foldl (exprStep m stage rec) (walkList rec f.body st)) := by
  unfold evFn
  have h1 := walkList_ind hQ rec A hcall f.body st (fun h hh => hA h (by
    simp only [evFn, callsOf_append, List.mem_append]; exact Or.inl hh))
  have h2 := exprs_ind hQ rec A hcall m stage huse f.exprs (walkList rec f.body st) (fun h hh => hA h (by
    simp only [evFn, callsOf_append, List.mem_append]; exact Or.inr hh))
  exact hQ.comp h1 h2

end

end WgslVerif
