import WgslVerif.Check.Basic
import WgslVerif.Check.C11
import WgslVerif.Check.C03
import WgslVerif.Check.C20
import WgslVerif.Check.All
import WgslVerif.Check.C08
import WgslVerif.Check.C09
import WgslVerif.Check.Simple
import WgslVerif.Check.C02
import WgslVerif.Check.C10
import WgslVerif.Check.C01S
/-
Driver: reads `(case …)` lines from stdin (written by harness `dump`), prints one line per
(property, run):   V|<prop>|<case id>|<run#>|<corr>|<spec>|<tags>
and per case:      M|<case id>|<parse ok>|<valid>|<#types>|<#globals>|<#functions>|<#entries>
Args: property ids to evaluate (default: all registered).
-/
open WgslVerif

def registry : List (String × (Ctx → Run → Verdict)) :=
  [ ("C11", CheckC11.check), ("C03", CheckC03.check),
    ("C20", fun c r => CheckC20.check c r r.visits),
    ("ALL", CheckAll.check), ("C08", CheckC08.check), ("C09", CheckC09.check),
    ("C04", CheckSimple.c04), ("C12", CheckSimple.c12), ("C13", CheckSimple.c13), ("C14", CheckSimple.c14),
    ("C15", CheckSimple.c15), ("C02", CheckC02.check),
    ("C05", CheckSimple.c05), ("C06", CheckSimple.c06), ("C16", CheckSimple.c16), ("C07", CheckSimple.c07), ("C10", CheckC10.check), ("C01S", CheckC01S.check) ]

def decodeCase (s : Sexp) : Except String (Ctx × List Run) := do
  let fs ← match s with
    | .list (.atom "case" :: .str id :: rest) => pure (id, rest)
    | _ => throw "not a case"
  let (id, rest) := fs
  let src ← match Sexp.field? "src" rest with
    | some [.str s] => pure s
    | some [.atom "omitted"] => pure ""
    | _ => throw "src"
  let path ← match Sexp.field? "path" rest with
    | some [p] => match Sexp.asOpt? Sexp.asStr? p with
      | some p => pure p
      | none => throw "path"
    | _ => throw "path"
  let (module, valid) ← match Sexp.field? "ir" rest with
    | some [v, m] => match Sexp.asBool? v, Dec.module? m with
      | some v, some m => pure (some m, v)
      | _, _ => throw "ir undecodable"
    | _ => match Sexp.field? "parseError" rest with
      | some _ => pure (none, false)
      | none => throw "ir missing"
  let runs ← match Sexp.field? "runs" rest with
    | some rs => rs.mapM fun
      | .list (.atom "run" :: o :: r :: us :: rest) =>
        let visits : Option (Nat × Nat × Nat) := match rest with
          | [.list [.atom "visits", a, b, c]] =>
            match Sexp.asNat? a, Sexp.asNat? b, Sexp.asNat? c with
            | some a, some b, some c => some (a, b, c)
            | _, _, _ => none
          | _ => none
        match Dec.options? o, DecOut.result? r, Sexp.asNat? us with
        | some o, some r, some us => pure ({ opts := o, real := r, micros := us, visits := visits } : Run)
        | none, _, _ => throw "options"
        | _, none, _ => throw s!"result undecodable: {(r.render.take 300).toString}"
        | _, _, none => throw "micros"
      | _ => throw "run"
    | none => throw "runs"
  pure ({ id, src, path, module, valid }, runs)

partial def loop (h : IO.FS.Stream) (props : List (String × (Ctx → Run → Verdict))) : IO Unit := do
  let line ← h.getLine
  if line.isEmpty then return ()
  if line.trimAscii.toString.isEmpty then return (← loop h props)
  match Sexp.parseOne line with
  | none => IO.println s!"E|?|unparsable line ({line.length} chars)"
  | some s =>
    match decodeCase s with
    | .error e => IO.println s!"E|{oneLine ((s.render.take 80).toString)}|{oneLine e}"
    | .ok (c, runs) =>
      match c.module with
      | some m =>
        IO.println s!"M|{oneLine c.id}|true|{c.valid}|{m.types.length}|{m.globals.length}|{m.functions.length}|{m.entries.length}"
      | none => IO.println s!"M|{oneLine c.id}|false|false|0|0|0|0"
      let mut i := 0
      for r in runs do
        for (p, chk) in props do
          let v := chk c r
          IO.println s!"V|{p}|{oneLine c.id}|{i}|{oneLine v.corr.render}|{oneLine v.spec.render}|{",".intercalate v.tags}"
        i := i + 1
  loop h props

def main (args : List String) : IO Unit := do
  let props := if args.isEmpty then registry else registry.filter fun (p, _) => args.contains p
  loop (← IO.getStdin) props
