struct Ids { @builtin(global_invocation_id) gid: vec3<u32>, @builtin(local_invocation_index) lid: u32 }
var<private> saved: Ids;
@group(0) @binding(0) var<storage, read_write> out_ids: array<u32>;
@compute @workgroup_size(1) fn main(ids: Ids) { saved = ids; out_ids[0] = saved.lid + saved.gid.x; }
