// C14 (repaired e14f872): target count = largest location + 1
struct Out { @location(2) a: vec4<f32>, @builtin(frag_depth) d: f32, @location(6) b: vec4<f32> }
@fragment fn fs_struct() -> Out { var o: Out; return o; }
@fragment fn fs_bare() -> @location(3) vec4<f32> { return vec4<f32>(0.0); }
@fragment fn fs_depth() -> @builtin(frag_depth) f32 { return 0.5; }
@fragment fn fs_bare0() -> @location(0) vec4<f32> { return vec4<f32>(0.0); }
