// an f64 override (naga accepts them), and a required override that is only used to size a workgroup, in a module with
// render entry points as well
override threshold: f64 = 0.1lf;
override t_required: f64;
override block_size: u32;
@id(7) override scale: f32 = 1.0;
@group(0) @binding(0) var<storage, read_write> data: array<f32>;
@compute @workgroup_size(block_size)
fn cs(@builtin(global_invocation_id) id: vec3<u32>) {
    data[id.x] = f32(threshold + t_required) * scale;
}
@vertex
fn vs(@builtin(vertex_index) i: u32) -> @builtin(position) vec4<f32> {
    return vec4<f32>(f32(i) * scale);
}
@fragment
fn fs() -> @location(0) vec4<f32> {
    return vec4<f32>(scale);
}
