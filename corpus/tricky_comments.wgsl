// comments with text that matters to a Rust lexer when the source is embedded: "# "## r#" \ \" \n \u{41} '"' */ r##"x"##
// matches the "#ff8800" accent colour; see also "#define"
/* a block comment with a quote " and a hash # right after it: "# and a backslash at the end of the line \
   still the comment */
struct Params {
    tint: vec4<f32>, // "tint"#1
    gain: f32,       // '"#'
}
@group(0) @binding(0) var<uniform> params: Params;
// line 12
// line 13 "#"#"#
@fragment
fn fs() -> @location(0) vec4<f32> {
    return params.tint * params.gain; // "#
}
