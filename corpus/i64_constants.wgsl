const A = 5li;
const B = 7lu;
@compute @workgroup_size(1) fn main() {}
