// a vertex-only input struct with 16-byte aligned members declared BEFORE the host-shareable structs (declaration order = order
// in naga's type arena = order of generation); a struct with all three roles (vertex parameter, entry result, variable type);
struct VIn { @location(0) pos: vec4<f32>, @location(1) tangent: vec4<f32>, @location(2) uv: vec2<f32> }
struct Material { albedo: vec3<f32>, rough: f32, m: mat3x3<f32>, n: mat4x4<f32> }
struct Lights { dir: array<vec3<f32>, 4>, k: vec3<f32> }
struct Color { @location(5) rgba: vec4<f32> }
@group(0) @binding(0) var<uniform> material: Material;
@group(0) @binding(1) var<storage, read> lights: Lights;
@group(0) @binding(2) var<uniform> tint: Color;
@vertex
fn vs_main(v: VIn, c: Color) -> @builtin(position) vec4<f32> {
    return v.pos * material.rough + vec4<f32>(lights.k, 0.0) + c.rgba + tint.rgba + v.tangent + vec4<f32>(v.uv, 0.0, 0.0);
}
@fragment
fn fs_main(c: Color) -> Color { return Color(c.rgba * tint.rgba); }
