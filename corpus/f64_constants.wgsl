// C15 (repaired 25cfe86): f64 constants keep their type
const tri4 = 1e10lf;
const neg: f64 = -0.0;
const third: f64 = 0.3333333333333333lf;
const small: f32 = 1.00000055e20f;
const negzero: f32 = -0.0;
const B = small;
@compute @workgroup_size(1) fn main() { }
