// Tint pass (more than eight lines, so that a generator that treats long sources differently does so here).
// The default tint matches the "#ff8800" accent of the UI theme: the quote followed by a hash is what ends a Rust raw string r#"..."#,
// and everything after it still lexes as Rust tokens (an identifier, then an ordinary string up to the next quote).
struct Uniforms {
    tint: vec4<f32>,
    exposure: f32,
}

@group(0) @binding(0)
var<uniform> uniforms: Uniforms;

struct VertexOutput {
    @builtin(position) position: vec4<f32>,
    @location(0) uv: vec2<f32>,
}

@vertex
fn vs_main(@builtin(vertex_index) index: u32) -> VertexOutput {
    var out: VertexOutput;
    let x = f32((index << 1u) & 2u);
    let y = f32(index & 2u);
    out.position = vec4<f32>(x * 2.0 - 1.0, y * 2.0 - 1.0, 0.0, 1.0);
    out.uv = vec2<f32>(x, y);
    return out;
}

@fragment
fn fs_main(v: VertexOutput) -> @location(0) vec4<f32> {
    return uniforms.tint * uniforms.exposure * vec4<f32>(v.uv, 0.0, 1.0);
}
