// struct roles beyond vertex-only / host-only / both:
//  FragOut  : entry-point RESULT and reachable from a variable
//  Instance : vertex input and element of a storage array, with a WGSL layout (vec3 followed by 16-byte aligned members) that
//             differs from a packed one; a member whose name starts with an underscore has a @location like any other
//  Twin / TwinHost : two structs with identical member lists, the first used only between functions, the second in a uniform
//  Flags (bool members, private) declared BEFORE further uniform structs
//  Counters: atomics in a host-shareable struct (direct, in an array, through a nested struct)
//  VsOut    : has a @builtin member, is a vertex RESULT and the element of a storage array, but no entry point's argument
struct FragOut { @location(0) color: vec4<f32>, @location(1) id: u32 }
struct VsOut { @builtin(position) clip: vec4<f32>, @location(0) uv: vec2<f32>, @location(1) @interpolate(flat) instance: u32 }
struct Instance { @location(0) pos: vec3<f32>, @location(1) scale: f32, @location(2) color: vec3<f32>, @location(3) _material: u32, @location(4) normal: vec3<f32> }
struct Twin { a: vec4<f32>, b: f32 }
struct Flags { on: bool, mask: vec2<bool> }
struct TwinHost { a: vec4<f32>, b: f32 }
struct After { m: mat3x3<f32>, k: f32 }
struct Atom { n: atomic<u32> }
struct Counters { hits: atomic<u32>, per_bin: array<atomic<i32>, 4>, nested: Atom, total: u32 }
var<private> flags: Flags;
@group(0) @binding(0) var<storage, read_write> last_frag: FragOut;
@group(0) @binding(1) var<storage, read> instances: array<Instance>;
@group(0) @binding(2) var<uniform> twin_host: TwinHost;
@group(0) @binding(3) var<uniform> after: After;
@group(0) @binding(4) var<storage, read_write> counters: Counters;
@group(0) @binding(5) var<storage, read_write> captured: array<VsOut, 4>;
fn make_twin(x: f32) -> Twin { return Twin(vec4<f32>(x), x); }
@vertex
fn vs(inst: Instance, @builtin(instance_index) i: u32) -> @builtin(position) vec4<f32> {
    let t = make_twin(inst.scale);
    return vec4<f32>(inst.pos + instances[i].normal, t.b + f32(inst._material));
}
@vertex
fn vs_out(@builtin(vertex_index) i: u32) -> VsOut {
    let o = VsOut(vec4<f32>(f32(i)), vec2<f32>(0.5), i);
    captured[i % 4u] = o;
    return o;
}
@fragment
fn fs_in(@location(0) uv: vec2<f32>, @location(1) @interpolate(flat) instance: u32) -> @location(0) vec4<f32> {
    return vec4<f32>(uv, f32(instance), 1.0);
}
@fragment
fn fs() -> FragOut {
    flags.on = true;
    atomicAdd(&counters.hits, 1u);
    let o = FragOut(twin_host.a * after.k, 7u);
    last_frag = o;
    return o;
}
@fragment
fn fs_id() -> @location(0) u32 {
    return 42u;
}
@fragment
fn fs_depth_value() -> @location(1) f32 {
    return 0.5;
}
