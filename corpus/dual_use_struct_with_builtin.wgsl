// C10 finding encase#builtin-member-dropped: entry input with a @builtin member that is also a storage type
struct V { @builtin(vertex_index) i: u32, @location(0) p: vec4<f32>, @location(1) q: vec2<f32> }
@group(0) @binding(0) var<storage, read> vs_in: array<V>;
@vertex fn vs(v: V) -> @builtin(position) vec4<f32> { return v.p + vs_in[v.i].p; }
