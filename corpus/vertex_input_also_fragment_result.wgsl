// C01 finding rustc#vertex-input-struct-not-emitted: S is a vertex input and an entry-point result.
struct S { @location(0) c: vec4<f32> }
@vertex fn vs(v: S) -> @builtin(position) vec4<f32> { return v.c; }
@fragment fn fs() -> S { var o: S; o.c = vec4<f32>(1.0); return o; }
