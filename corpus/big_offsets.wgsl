struct Big { table: array<vec4<f32>, 8192>, after: f32, more: array<vec4<u32>, 6251>, tail: vec2<f32> }
struct Bigger { a: array<mat4x4<f32>, 16385>, b: vec4<f32> }
@group(0) @binding(0) var<storage, read> big: Big;
@group(0) @binding(1) var<storage, read_write> bigger: Bigger;
@compute @workgroup_size(1) fn main() { bigger.b = big.table[0] + vec4<f32>(big.after) + vec4<f32>(big.tail, 0.0, 0.0); }
