// array lengths with interesting decimal digit groups (1000, 1024, 4096, 10000, 100000, 131072, 1048576)
struct Tables {
    a: array<vec4<f32>, 1000>,
    b: array<vec4<f32>, 1024>,
    c: array<u32, 4096>,
    d: array<u32, 10000>,
    e: array<u32, 100000>,
    f: array<u32, 131072>,
    g: array<vec2<f32>, 1048576>,
    tail: f32,
}
@group(0) @binding(0) var<storage, read> tables: Tables;
@group(0) @binding(1) var<storage, read_write> out: array<f32>;
@compute @workgroup_size(64)
fn main(@builtin(global_invocation_id) id: vec3<u32>) {
    out[id.x] = tables.a[id.x % 1000u].x + f32(tables.f[id.x % 131072u]) + tables.tail;
}
