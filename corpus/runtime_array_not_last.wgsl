struct S { a: array<f32>, b: f32 }
@group(0) @binding(0) var<storage> s: S;
@compute @workgroup_size(1) fn main() { _ = s.b; }
