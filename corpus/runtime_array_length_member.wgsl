// runtime-sized arrays behind members named like a length (the encase documentation's example names), several element types
struct Particles { length: u32, items: array<vec4<f32>> }
struct Indices { len: u32, pad: u32, data: array<u32> }
struct Named { count: u32, size: u32, length: f32, values: array<vec2<f32>> }
@group(0) @binding(0) var<storage, read> particles: Particles;
@group(0) @binding(1) var<storage, read_write> indices: Indices;
@group(0) @binding(2) var<storage, read> named: Named;
@compute @workgroup_size(1)
fn main() {
    indices.data[0] = particles.length + indices.len + named.count + u32(particles.items[0].x + named.values[0].y + named.length);
}
