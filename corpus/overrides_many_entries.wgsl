// overrides in a module with two vertex, two fragment and two compute entry points; one compute entry does not mention any
// override; defaults that apply a builtin function to another override; a vertex-only struct with an explicit @size
override scale: f32 = 1.0;
override falloff: f32 = sqrt(scale);
@id(3) override steps: u32 = u32(max(scale, 1.0)) * 4u;
override soft: bool = clamp(scale, 0.0, 1.0) < 0.5;
override required_gain: f32;
struct InstanceInput { @location(0) @size(8) id: u32, @location(1) weight: f32 }
struct FragIn { @location(0) @align(16) uv: vec2<f32> }
@group(0) @binding(0) var<storage, read_write> data: array<f32>;
@vertex
fn vs_a(@builtin(vertex_index) i: u32) -> @builtin(position) vec4<f32> { return vec4<f32>(f32(i) * scale); }
@vertex
fn vs_b(inst: InstanceInput) -> @builtin(position) vec4<f32> { return vec4<f32>(f32(inst.id) * inst.weight * falloff); }
@fragment
fn fs_a() -> @location(0) vec4<f32> { return vec4<f32>(required_gain); }
@fragment
fn fs_b(v: FragIn) -> @location(0) vec4<f32> { if soft { return vec4<f32>(v.uv, 0.0, 1.0); } return vec4<f32>(f32(steps)); }
@compute @workgroup_size(4)
fn cs_with(@builtin(global_invocation_id) id: vec3<u32>) { data[id.x] = scale; }
@compute @workgroup_size(4)
fn cs_without(@builtin(global_invocation_id) id: vec3<u32>) { data[id.x] = 1.0; }
