// C12: required / optional, @id / name, all scalar types, defaults depending on other overrides
override a: bool;
@id(7) override b: i32;
@id(65535) override c: u32 = 3u;
override d: f32 = 1.5;
@id(0) override e: bool = true;
override f: f32;
override g: f32 = d * 2.0;
@id(12) override h: i32 = b + 1;
@vertex fn vs() -> @builtin(position) vec4<f32> { return vec4<f32>(f32(b) + f32(c) + d + f + g + f32(h)); }
@fragment fn fs() -> @location(0) vec4<f32> { if a && e { return vec4<f32>(1.0); } return vec4<f32>(0.0); }
