// C03 / C13: uses reached only through call STATEMENTS in a continuing block, a for update clause, nested blocks
struct PC { a: vec3<f32>, b: f32 }
var<push_constant> pc: PC;
@group(0) @binding(0) var<uniform> u: vec4<f32>;
@group(0) @binding(1) var<storage, read_write> w: array<f32>;
fn leafv() { _ = pc; w[0] = u.x; }
fn midv() { var x = 0.0; loop { if x > 1.0 { break; } continuing { x += 1.0; leafv(); } } }
fn midf() { for (var i = 0u; i < 2u; leafv()) { i += 1u; } }
fn mids(k: u32) { switch k { case 1u: { if k > 0u { { leafv(); } } } default: { } } }
@vertex fn vs() -> @builtin(position) vec4<f32> { return vec4<f32>(0.0); }
@fragment fn fs() -> @location(0) vec4<f32> { midf(); return vec4<f32>(0.0); }
@compute @workgroup_size(1) fn cs() { midv(); mids(1u); }
