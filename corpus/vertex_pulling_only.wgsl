// every vertex entry of this module works without a vertex buffer (fullscreen triangle, vertex pulling)
@group(0) @binding(0) var<storage, read> positions: array<vec4<f32>>;
@vertex
fn fullscreen(@builtin(vertex_index) i: u32) -> @builtin(position) vec4<f32> {
    return vec4<f32>(f32(i & 1u) * 4.0 - 1.0, f32(i >> 1u) * 4.0 - 1.0, 0.0, 1.0);
}
@vertex
fn pulled(@builtin(vertex_index) i: u32, @builtin(instance_index) inst: u32) -> @builtin(position) vec4<f32> {
    return positions[i + inst];
}
@fragment
fn fs() -> @location(0) vec4<f32> {
    return vec4<f32>(1.0);
}
