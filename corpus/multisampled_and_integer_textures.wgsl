// C02 open findings: multisampled float texture, integer texture gathered through a sampler
@group(0) @binding(0) var ms: texture_multisampled_2d<f32>;
@group(0) @binding(1) var it: texture_2d<u32>;
@group(0) @binding(2) var s: sampler;
@group(0) @binding(3) var dm: texture_depth_multisampled_2d;
@fragment fn fs() -> @location(0) vec4<f32> {
  let a = textureLoad(ms, vec2<i32>(0, 0), 0);
  let b = textureGather(0, it, s, vec2<f32>(0.5, 0.5));
  let c = textureLoad(dm, vec2<i32>(0, 0), 0);
  return a + vec4<f32>(b) + vec4<f32>(c);
}
