// more struct roles:
//  Inner : reachable from a var<private> declared FIRST and, nested in Outer, from a uniform declared later
//  Vert  : vertex input struct that a helper function also RETURNS (and takes)
//  Multi : vertex input struct with a @builtin(view_index) member between located members
//  Inst  : vertex input AND storage element with a leading @builtin(instance_index) member (offsets of the later members)
struct Inner { k: vec3<f32>, w: f32 }
struct Outer { first: f32, inner: Inner, many: array<Inner, 2> }
struct Vert { @location(0) pos: vec3<f32>, @location(1) uv: vec2<f32> }
struct Multi { @location(2) a: vec4<f32>, @builtin(view_index) view: i32, @location(3) b: vec2<f32> }
struct Inst { @builtin(instance_index) idx: u32, @location(4) offset: vec4<f32>, @location(5) scale: f32 }
var<private> scratch: Inner;
@group(0) @binding(0) var<uniform> outer: Outer;
@group(0) @binding(1) var<storage, read> insts: array<Inst>;
fn displace(v: Vert, a: f32) -> Vert { return Vert(v.pos * a, v.uv); }
@vertex
fn vs(v: Vert, m: Multi, inst: Inst) -> @builtin(position) vec4<f32> {
    scratch = outer.inner;
    let d = displace(v, scratch.w + outer.many[1].w);
    return vec4<f32>(d.pos, 1.0) + m.a * f32(m.view) + insts[inst.idx].offset * inst.scale + vec4<f32>(m.b, d.uv);
}
