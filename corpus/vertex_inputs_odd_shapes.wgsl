// C07: bare @location parameter (open finding), builtin-only struct parameter, padded struct under glam, shared struct
struct Indices { @builtin(vertex_index) v: u32, @builtin(instance_index) i: u32 }
struct Padded { @location(3) a: f32, @location(0) b: vec4<f32>, @location(7) c: vec3<f32>, @builtin(vertex_index) vi: u32, @location(1) d: vec2<u32>, @location(2) e: vec4<i32> }
struct Inst { @location(9) m0: vec4<f32>, @location(10) m1: vec4<f32> }
@vertex fn vs_a(p: Padded, inst: Inst) -> @builtin(position) vec4<f32> { return p.b + inst.m0; }
@vertex fn vs_b(inst: Inst, @builtin(instance_index) k: u32, p: Padded) -> @builtin(position) vec4<f32> { return p.b + inst.m1; }
@vertex fn vs_c(idx: Indices, inst: Inst) -> @builtin(position) vec4<f32> { return inst.m0 * f32(idx.v + idx.i); }
@vertex fn vs_d(@location(4) bare: vec4<f32>) -> @builtin(position) vec4<f32> { return bare; }
