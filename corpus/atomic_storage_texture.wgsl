// C02 (repaired 363ad08): atomic access of a storage texture
@group(0) @binding(0) var t: texture_storage_2d<r32uint, atomic>;
@group(0) @binding(3) var u: texture_storage_2d<r32sint, atomic>;
@compute @workgroup_size(1) fn main() { textureAtomicAdd(t, vec2<i32>(0, 0), 1u); textureAtomicMax(u, vec2<i32>(0, 0), 1); }
