struct PcV { mvp: mat4x4<f32> }
struct PcF { tint: vec4<f32>, gain: f32 }
var<push_constant> pv: PcV;
var<push_constant> pf: PcF;
@vertex fn vs_main(@builtin(vertex_index) i: u32) -> @builtin(position) vec4<f32> { return pv.mvp * vec4<f32>(f32(i)); }
@fragment fn fs_main() -> @location(0) vec4<f32> { return pf.tint * pf.gain; }
