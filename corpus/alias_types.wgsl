// WGSL aliases: of scalars (constants, overrides, members), of an array type used as a variable's type and as a member
alias Real = f32;
alias Index = u32;
alias Flag = bool;
struct Light { pos: vec3<Real>, intensity: Real }
struct Bone { m: mat4x4<f32> }
alias Lights = array<Light, 4>;
alias Bones = array<Bone, 8>;
const SCALE: Real = 1.5;
const COUNT: Index = 12u;
const ENABLED: Flag = true;
const HALF_SCALE = SCALE / 2.0;
override gain: Real = 2.0;
override steps: Index;
struct Scene { lights: Lights, ambient: vec4<f32> }
@group(0) @binding(0) var<uniform> scene: Scene;
@group(0) @binding(1) var<storage, read> bones: Bones;
@group(0) @binding(2) var<storage, read_write> out: array<Real>;
@compute @workgroup_size(1)
fn main() {
    out[0] = scene.lights[0].intensity * SCALE * gain + bones[0].m[0][0] + f32(COUNT + steps);
}
