struct FragOut {
    @location(0) color: vec4<f32>,
    @location(0) @second_blend_source blend: vec4<f32>,
}
@fragment fn fs_dual() -> FragOut { return FragOut(vec4<f32>(1.0), vec4<f32>(0.5)); }
@fragment fn fs_single() -> @location(0) vec4<f32> { return vec4<f32>(1.0); }
