struct Inner { w: vec4<f32> }
struct Tile { v: vec4<f32>, inner: Inner, n: u32 }
override tile_count: u32 = 4u;
var<workgroup> tiles: array<Tile, tile_count>;
@group(0) @binding(0) var<storage, read_write> dst: array<vec4<f32>>;
@compute @workgroup_size(4) fn main(@builtin(local_invocation_index) i: u32) { tiles[i].v = vec4<f32>(f32(i)); workgroupBarrier(); dst[i] = tiles[0].v + tiles[i].inner.w; }
