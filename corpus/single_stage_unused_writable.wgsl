// an all-vertex module (vertex pulling with a shared bindings header) that DECLARES writable storage it never uses
@group(0) @binding(0) var<storage, read> positions: array<vec4<f32>>;
@group(0) @binding(1) var<storage, read_write> unused_rw: array<f32>;
@group(0) @binding(2) var unused_img: texture_storage_2d<rgba8unorm, write>;
@group(0) @binding(3) var<uniform> unused_params: vec4<f32>;
@vertex
fn vs_main(@builtin(vertex_index) i: u32) -> @builtin(position) vec4<f32> { return positions[i]; }
@vertex
fn vs_other(@builtin(vertex_index) i: u32) -> @builtin(position) vec4<f32> { return positions[i + 1u]; }
