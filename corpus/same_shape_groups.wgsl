// two groups with the same resource shapes and visibility at DIFFERENT binding indices; a 3d texture and a 3d storage texture
@group(0) @binding(0) var<uniform> a0: vec4<f32>;
@group(0) @binding(1) var<uniform> a1: vec4<f32>;
@group(1) @binding(2) var<uniform> b0: vec4<f32>;
@group(1) @binding(5) var<uniform> b1: vec4<f32>;
@group(2) @binding(3) var vol: texture_3d<f32>;
@group(2) @binding(1) var vol_out: texture_storage_3d<rgba8unorm, write>;
@group(2) @binding(7) var vol_sampler: sampler;
@compute @workgroup_size(1)
fn main() {
    let v = textureLoad(vol, vec3<i32>(0), 0) + a0 + a1 + b0 + b1;
    textureStore(vol_out, vec3<i32>(0), v);
    _ = vol_sampler;
}
