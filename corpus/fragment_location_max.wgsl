// a fragment output at the largest location a u32 can hold (the front end accepts it; the validator does not)
struct Far { @location(4294967295u) c: vec4<f32> }
@fragment
fn fs_far() -> Far { return Far(vec4<f32>(1.0)); }
@fragment
fn fs_direct() -> @location(4294967295u) vec4<f32> { return vec4<f32>(0.5); }
