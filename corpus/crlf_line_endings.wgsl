// a shader saved with Windows line endings (CR LF), one line with a lone LF and one lone CR inside a comment
struct P { a: vec4<f32>, b: f32 }
@group(0) @binding(0) var<uniform> p: P;
// lone CR here ->  <- and the line goes on
@compute @workgroup_size(1)
fn main() {
    _ = p.a.x + p.b;
}
