// module-scope constants of STRUCT type (only scalar constants are exported; their types are no reason to emit a struct),
// and naga's predeclared ray-query structs used like ordinary host-shareable structs
struct Light { dir: vec3<f32>, intensity: f32 }
struct Flags { on: u32, level: u32 }
struct FsOut { @location(0) color: vec4<f32> }
const DEFAULT_LIGHT = Light(vec3<f32>(1.0, 0.0, 0.0), 2.0);
const NO_FLAGS = Flags(0u, 0u);
const BIG_A: u32 = 262144u;
const BIG_B: i32 = -100000;
const BIG_C: u32 = 123456789u;
const BIG_D: i32 = 100000;
const BIG_E: u32 = 999999u;
const BIG_F: i32 = -2147483647;
struct Camera { ray: RayDesc, exposure: f32 }
@group(0) @binding(0) var<uniform> camera: Camera;
@group(0) @binding(1) var<storage, read> hits: array<RayIntersection>;
@group(0) @binding(2) var<storage, read> rays: array<RayDesc>;
@fragment
fn fs() -> FsOut {
    let l = DEFAULT_LIGHT;
    let f = NO_FLAGS;
    return FsOut(vec4<f32>(l.dir * l.intensity * camera.exposure * camera.ray.tmax, f32(f.on + BIG_A) + hits[0].t + rays[0].tmin + f32(BIG_B + BIG_D + BIG_F) + f32(BIG_C + BIG_E)));
}
