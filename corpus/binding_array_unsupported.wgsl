@group(0) @binding(0) var t: binding_array<texture_2d<f32>, 4>;
@fragment fn main() -> @location(0) vec4<f32> { return textureLoad(t[0], vec2<i32>(0,0), 0); }
